//! Prime fields: all public operations × boundary operand classes vs the Lean `Nat` model.

use std::fmt::Debug;
use std::io::Read;
use std::time::{Duration, Instant};

use ff::{BatchInvert, Field, FromUniformBytes, PrimeField};
use midnight_curves::ff_ext::Legendre;
use midnight_curves::serde::SerdeObject;
use mzkh::{big_hex, catch, Ctx};
use num_bigint::BigUint;
use num_traits::{One, Zero};
use rand_core::RngCore;
use serde_json::json;

pub type BlsFq = midnight_curves::Fq;
pub type BlsFp = midnight_curves::Fp;
pub type JubjubFr = midnight_curves::Fr;
pub type C25519Fp = midnight_curves::curve25519::Fp;
pub type C25519Scalar = midnight_curves::curve25519::Scalar;
pub type K256Fp = midnight_curves::k256::Fp;
pub type K256Fq = midnight_curves::k256::Fq;
pub type Bn256Fq = midnight_curves::bn256::Fq;
pub type Bn256Fr = midnight_curves::bn256::Fr;

/// A prime field under test.
pub trait PF: PrimeField + Debug {
    const NAME: &'static str;
    /// `Repr` is big-endian.
    const BE: bool;
    /// 64-bit limbs of the internal representation (R = 2^(64·LIMBS)).
    const LIMBS: usize;
}

macro_rules! pf {
    ($t:ty, $n:expr, $be:expr, $l:expr) => {
        impl PF for $t {
            const NAME: &'static str = $n;
            const BE: bool = $be;
            const LIMBS: usize = $l;
        }
    };
}
pf!(BlsFq, "BlsFq", false, 4);
pf!(BlsFp, "BlsFp", false, 6);
pf!(JubjubFr, "JubjubFr", false, 4);
pf!(C25519Fp, "C25519Fp", false, 4);
pf!(C25519Scalar, "C25519Scalar", false, 4);
pf!(K256Fp, "K256Fp", true, 4);
pf!(K256Fq, "K256Fq", true, 4);
pf!(Bn256Fq, "Bn256Fq", false, 4);
pf!(Bn256Fr, "Bn256Fr", false, 4);

pub fn modulus<F: PF>() -> BigUint {
    BigUint::parse_bytes(F::MODULUS.trim_start_matches("0x").as_bytes(), 16).unwrap()
}

pub fn repr_len<F: PF>() -> usize {
    F::Repr::default().as_ref().len()
}

pub fn canon<F: PF>(x: &F) -> BigUint {
    let r = x.to_repr();
    if F::BE {
        BigUint::from_bytes_be(r.as_ref())
    } else {
        BigUint::from_bytes_le(r.as_ref())
    }
}

/// `Repr` holding the integer `n` (must fit).
pub fn repr_of<F: PF>(n: &BigUint) -> F::Repr {
    let len = repr_len::<F>();
    let mut b = n.to_bytes_le();
    assert!(b.len() <= len);
    b.resize(len, 0);
    if F::BE {
        b.reverse();
    }
    let mut r = F::Repr::default();
    r.as_mut().copy_from_slice(&b);
    r
}

/// Element with canonical value `n mod p`, built through the checked decoder.
pub fn fe<F: PF>(n: &BigUint) -> F {
    let v = n % modulus::<F>();
    Option::<F>::from(F::from_repr(repr_of::<F>(&v))).expect("from_repr of a canonical value")
}

pub fn hx<F: PF>(x: &F) -> String {
    big_hex(&canon(x))
}

fn pow2(k: usize) -> BigUint {
    BigUint::one() << k
}

/// Boundary operand classes of the property's quantifier, as integers (reduced mod p by `fe`).
pub fn classes<F: PF>(ctx: &Ctx, nrandom: usize) -> Vec<(&'static str, BigUint)> {
    let p = modulus::<F>();
    let one = BigUint::one();
    let bits = 64 * F::LIMBS;
    let r = pow2(bits) % &p;
    let mut v: Vec<(&'static str, BigUint)> = vec![
        ("0", BigUint::zero()),
        ("1", one.clone()),
        ("2", BigUint::from(2u32)),
        ("3", BigUint::from(3u32)),
        ("-1", &p - 1u32),
        ("-2", &p - 2u32),
        ("(p-1)/2", (&p - 1u32) / 2u32),
        ("(p+1)/2", (&p + 1u32) / 2u32),
        ("(p-1)/2-1", (&p - 1u32) / 2u32 - 1u32),
        ("R", r.clone()),
        ("R^2", (&r * &r) % &p),
        ("R^3", (&r * &r * &r) % &p),
        ("-R", &p - &r),
        ("limbs-all-ones", (pow2(bits) - 1u32) % &p),
        ("2^bits(p)-1 mod p", (pow2(p.bits() as usize) - 1u32) % &p),
        ("p-2^64", &p - pow2(64)),
        ("p-2^64+1", &p - pow2(64) + 1u32),
    ];
    for k in 1..F::LIMBS {
        v.push(("2^64k-1", (pow2(64 * k) - 1u32) % &p));
        v.push(("2^64k", pow2(64 * k) % &p));
        v.push(("2^64k+1", (pow2(64 * k) + 1u32) % &p));
    }
    let mut rng = ctx.rng(&format!("classes:{}", F::NAME));
    for _ in 0..nrandom {
        let mut b = vec![0u8; 8 * F::LIMBS + 8];
        rng.fill_bytes(&mut b);
        v.push(("random", BigUint::from_bytes_le(&b) % &p));
    }
    // the band just below the modulus
    for _ in 0..nrandom.min(4) {
        v.push(("band[p-2^64,p)", &p - 1u32 - BigUint::from(rng.next_u64())));
    }
    v
}

fn fail(ctx: &mut Ctx, key: String, what: &str, detail: serde_json::Value) {
    ctx.oracle_fail(&key, what, detail);
}

/// `PrimeField::from_u128` (the `ff` default doubles 64 times — a chain of in-place operations
/// of the wrapper): a panic is a failing input, not a crash of the harness.
fn from_u128_case<F: PF>(ctx: &mut Ctx, nt: bool, w: u128) {
    let n = F::NAME;
    let line = format!("pf {n} reduce {}", big_hex(&BigUint::from(w)));
    match catch(|| hx(&F::from_u128(w))) {
        Ok(v) => ctx.case("from_u128", nt, &line, &v),
        Err(e) => {
            ctx.case("from_u128", nt, &line, "panic");
            fail(ctx, format!("{n}:from_u128-panic:0x{w:x}"), "from_u128 panicked", json!({"field": n, "v": format!("0x{w:x}"), "panic": e}));
        }
    }
}

/// Operations every `ff::PrimeField` has.
pub fn run_core<F: PF>(ctx: &mut Ctx) {
    let n = F::NAME;
    let p = modulus::<F>();
    let nrand = crate::sz(ctx, 6, 40);
    let cls = classes::<F>(ctx, nrand);
    let els: Vec<F> = cls.iter().map(|(_, v)| fe::<F>(v)).collect();

    // published constants (checked against the generated/derived constants of the model)
    let consts: Vec<(&str, BigUint)> = vec![
        ("MODULUS_STR", p.clone()),
        ("S", BigUint::from(F::S)),
        ("NUM_BITS", BigUint::from(F::NUM_BITS)),
        ("ONE", canon(&F::ONE)),
        ("MULTIPLICATIVE_GENERATOR", canon(&F::MULTIPLICATIVE_GENERATOR)),
        ("ROOT_OF_UNITY", canon(&F::ROOT_OF_UNITY)),
        ("ROOT_OF_UNITY_INV", canon(&F::ROOT_OF_UNITY_INV)),
        ("DELTA", canon(&F::DELTA)),
        ("TWO_INV", canon(&F::TWO_INV)),
    ];
    for (c, v) in &consts {
        ctx.case("const", true, &format!("const {n} {c}"), &big_hex(v));
    }
    // defining equations of the published constants, on the running values
    {
        let g = canon(&F::MULTIPLICATIVE_GENERATOR);
        let s = F::S as usize;
        let mut t = &p - 1u32;
        let mut true_s = 0usize;
        while (&t % 2u32).is_zero() {
            t /= 2u32;
            true_s += 1;
        }
        let rou = canon(&F::ROOT_OF_UNITY);
        let mut bad: Vec<&str> = vec![];
        if s != true_s {
            bad.push("S");
        }
        if g.modpow(&((&p - 1u32) / 2u32), &p) != &p - 1u32 {
            bad.push("MULTIPLICATIVE_GENERATOR is a quadratic residue");
        }
        if rou.modpow(&pow2(s), &p) != BigUint::one() || (s > 0 && rou.modpow(&pow2(s - 1), &p) == BigUint::one()) {
            bad.push("ROOT_OF_UNITY order");
        }
        if rou != g.modpow(&((&p - 1u32) >> s), &p) && s == true_s {
            bad.push("ROOT_OF_UNITY != g^t");
        }
        if (&rou * canon(&F::ROOT_OF_UNITY_INV)) % &p != BigUint::one() {
            bad.push("ROOT_OF_UNITY_INV");
        }
        if canon(&F::DELTA) != g.modpow(&pow2(s), &p) {
            bad.push("DELTA");
        }
        if (canon(&F::TWO_INV) * 2u32) % &p != BigUint::one() {
            bad.push("TWO_INV");
        }
        if canon(&F::ONE) != BigUint::one() {
            bad.push("ONE");
        }
        // (the placeholder constants of bls12_381::Fp are reported under their own known key
        // in run_bls_extras)
        let placeholders_only = n == "BlsFp" && bad.iter().all(|b| *b == "S" || *b == "DELTA");
        if !bad.is_empty() && !placeholders_only {
            fail(ctx, format!("{n}:constants:{}", bad.join("|")), "a published PrimeField constant violates its defining equation", json!({"field": n, "violated": bad}));
        }
    }
    if F::CAPACITY != F::NUM_BITS - 1 || p.bits() as u32 != F::NUM_BITS {
        fail(ctx, format!("{n}:NUM_BITS"), "NUM_BITS/CAPACITY do not describe the modulus", json!({"field": n}));
    }
    if F::ZERO != F::default() || !bool::from(F::ZERO.is_zero()) || canon(&F::ZERO) != BigUint::zero() {
        fail(ctx, format!("{n}:ZERO"), "ZERO is not zero", json!({"field": n}));
    }

    // unary
    for ((c, v), a) in cls.iter().zip(&els) {
        ctx.count(&format!("class:{c}"));
        let nt = *c == "random" || c.starts_with("band");
        let a = *a;
        let av = big_hex(v);
        if canon(&a) != *v {
            fail(ctx, format!("{n}:repr:{av}"), "to_repr(from_repr(v)) != v", json!({"field": n, "v": av}));
        }
        ctx.case("neg", nt, &format!("pf {n} neg {av}"), &hx(&-a));
        ctx.case("square", nt, &format!("pf {n} square {av}"), &hx(&a.square()));
        ctx.case("double", nt, &format!("pf {n} double {av}"), &hx(&a.double()));
        ctx.case("is_odd", nt, &format!("pf {n} is_odd {av}"), &format!("{}", a.is_odd().unwrap_u8()));
        ctx.case("is_zero", nt, &format!("pf {n} is_zero {av}"), &format!("{}", a.is_zero().unwrap_u8()));
        if bool::from(a.is_even()) == bool::from(a.is_odd()) || a.is_zero_vartime() != bool::from(a.is_zero()) {
            fail(ctx, format!("{n}:parity:{av}"), "is_even/is_odd or is_zero_vartime/is_zero inconsistent", json!({"field": n, "a": av}));
        }
        if a.cube() != a * a * a || a.square() != a * a {
            fail(ctx, format!("{n}:square-cube:{av}"), "square/cube differ from repeated multiplication", json!({"field": n, "a": av}));
        }
        // inversion
        let inv = catch(|| Option::<F>::from(a.invert()));
        match inv {
            Err(e) => fail(ctx, format!("{n}:invert-panic:{av}"), "invert panicked", json!({"field": n, "a": av, "panic": e})),
            Ok(inv) => {
                ctx.case("inv", nt, &format!("pf {n} inv {av}"), &inv.map(|i| hx(&i)).unwrap_or("none".into()));
                match inv {
                    Some(i) => {
                        if i * a != F::ONE || v.is_zero() {
                            fail(ctx, format!("{n}:invert:{av}"), "x * invert(x) != 1", json!({"field": n, "a": av}));
                        }
                    }
                    None => {
                        if !v.is_zero() {
                            fail(ctx, format!("{n}:invert:{av}"), "invert(x) is None for x != 0", json!({"field": n, "a": av}));
                        }
                    }
                }
            }
        }
        // square root
        let rt = catch(|| Option::<F>::from(a.sqrt()));
        match rt {
            Err(e) => fail(ctx, format!("{n}:sqrt-panic:{av}"), "sqrt panicked", json!({"field": n, "a": av, "panic": e})),
            Ok(rt) => {
                let ans = rt.map(|r| {
                    let rv = canon(&r);
                    let other = (&p - &rv) % &p;
                    big_hex(&rv.min(other))
                });
                ctx.case("sqrt", nt, &format!("pf {n} sqrt {av}"), &ans.unwrap_or("none".into()));
                if let Some(r) = rt {
                    if r * r != a {
                        fail(ctx, format!("{n}:sqrt:{av}"), "sqrt(x)^2 != x", json!({"field": n, "a": av}));
                    }
                }
                // sqrt of a square always exists
                let sq = a.square();
                match catch(|| Option::<F>::from(sq.sqrt())) {
                    Ok(Some(r)) if r == a || r == -a => {}
                    _ => fail(ctx, format!("{n}:sqrt-of-square:{av}"), "sqrt(x^2) is not ±x", json!({"field": n, "a": av})),
                }
            }
        }
        // integer conversions
        if *c == "random" || *c == "2^64k-1" || *c == "1" {
            let d = v.to_u64_digits();
            let lo = d.first().copied().unwrap_or(0);
            let hi = d.get(1).copied().unwrap_or(0);
            ctx.case("from_u64", nt, &format!("pf {n} reduce {}", big_hex(&BigUint::from(lo))), &hx(&F::from(lo)));
            let w = ((hi as u128) << 64) | lo as u128;
            from_u128_case::<F>(ctx, nt, w);
        }
    }
    ctx.case("from_u64", false, &format!("pf {n} reduce 0x{:x}", u64::MAX), &hx(&F::from(u64::MAX)));
    from_u128_case::<F>(ctx, false, u128::MAX);

    // binary: all pairs of classes
    for ((ca, va), a) in cls.iter().zip(&els) {
        for ((cb, vb), b) in cls.iter().zip(&els) {
            let (a, b) = (*a, *b);
            let nt = *ca == "random" || *cb == "random" || ca.starts_with("band") || cb.starts_with("band");
            let (ah, bh) = (big_hex(va), big_hex(vb));
            let sum = a + b;
            let dif = a - b;
            let prod = a * b;
            ctx.case("add", nt, &format!("pf {n} add {ah} {bh}"), &hx(&sum));
            ctx.case("sub", nt, &format!("pf {n} sub {ah} {bh}"), &hx(&dif));
            ctx.case("mul", nt, &format!("pf {n} mul {ah} {bh}"), &hx(&prod));
            // operator variants: by reference, in place (value / reference)
            let mut ok = a + &b == sum && a - &b == dif && a * &b == prod;
            let mut t = a;
            t += b;
            ok &= t == sum;
            let mut t = a;
            t += &b;
            ok &= t == sum;
            let mut t = a;
            t -= b;
            ok &= t == dif;
            let mut t = a;
            t -= &b;
            ok &= t == dif;
            let mut t = a;
            t *= b;
            ok &= t == prod;
            let mut t = a;
            t *= &b;
            ok &= t == prod;
            ok &= bool::from(sum.ct_eq(&(b + a))) && (a == b) == (va == vb) && bool::from(a.ct_eq(&b)) == (va == vb);
            ok &= F::conditional_select(&a, &b, 0.into()) == a && F::conditional_select(&a, &b, 1.into()) == b;
            if !ok {
                fail(ctx, format!("{n}:variants:{ah}:{bh}"), "operator variants (by ref / in place / ct_eq / select) disagree",
                    json!({"field": n, "a": ah, "b": bh}));
            }
        }
    }

    // exponentiation
    let mut rng = ctx.rng(&format!("pow:{n}"));
    let mut exps: Vec<BigUint> = vec![
        BigUint::zero(), BigUint::one(), BigUint::from(2u32), BigUint::from(3u32), &p - 1u32, &p - 2u32, (&p - 1u32) / 2u32,
        p.clone(), pow2(64) - 1u32, pow2(64), pow2(64 * F::LIMBS) - 1u32,
    ];
    for _ in 0..(crate::sz(ctx, 3, 20)) {
        let mut b = vec![0u8; 8 * F::LIMBS];
        rng.fill_bytes(&mut b);
        exps.push(BigUint::from_bytes_le(&b));
    }
    let bases: Vec<usize> = (0..els.len()).filter(|i| ctx.thorough() || i % 3 == 0 || cls[*i].0 == "random").collect();
    for i in bases {
        for e in &exps {
            let mut d = e.to_u64_digits();
            d.resize(F::LIMBS, 0);
            let r = els[i].pow(&d);
            let rv = els[i].pow_vartime(&d);
            ctx.case("pow", true, &format!("pf {n} pow {} {}", big_hex(&cls[i].1), big_hex(e)), &hx(&r));
            if r != rv {
                fail(ctx, format!("{n}:pow-vartime:{}:{}", big_hex(&cls[i].1), big_hex(e)), "pow != pow_vartime",
                    json!({"field": n, "a": big_hex(&cls[i].1), "e": big_hex(e)}));
            }
        }
    }

    // checked canonical decoder around the modulus
    let len = repr_len::<F>();
    let top = pow2(8 * len);
    let mut dec: Vec<(&str, BigUint)> = vec![
        ("p-2", &p - 2u32), ("p-1", &p - 1u32), ("p", p.clone()), ("p+1", &p + 1u32), ("p+2", &p + 2u32),
        ("0", BigUint::zero()), ("1", BigUint::one()), ("all-ff", &top - 1u32), ("2^bits-1", pow2(p.bits() as usize) - 1u32),
        ("2^bits", pow2(p.bits() as usize) % &top), ("2^(bits-1)", pow2(p.bits() as usize - 1)),
    ];
    for k in 0..(len / 8) {
        dec.push(("p+2^64k", (&p + pow2(64 * k)) % &top));
        if p > pow2(64 * k) {
            dec.push(("p-2^64k", &p - pow2(64 * k)));
        }
        dec.push(("p|byte", (&p + pow2(8 * (8 * k + 7))) % &top));
    }
    if &p * 2u32 < top {
        dec.push(("2p", &p * 2u32));
        dec.push(("2p-1", &p * 2u32 - 1u32));
    }
    for _ in 0..(crate::sz(ctx, 8, 200)) {
        let mut b = vec![0u8; len];
        rng.fill_bytes(&mut b);
        dec.push(("random-bytes", BigUint::from_bytes_le(&b)));
    }
    for (c, v) in &dec {
        ctx.count(&format!("decode:{c}"));
        let vh = big_hex(v);
        let r = catch(|| Option::<F>::from(F::from_repr(repr_of::<F>(v))));
        match r {
            Err(e) => fail(ctx, format!("{n}:from_repr-panic:{vh}"), "from_repr panicked", json!({"field": n, "bytes": vh, "panic": e})),
            Ok(r) => {
                ctx.case("from_repr", true, &format!("pf {n} from_repr {vh}"), &r.map(|x| hx(&x)).unwrap_or("none".into()));
                let rv = catch(|| F::from_repr_vartime(repr_of::<F>(v)));
                if rv != Ok(r) {
                    fail(ctx, format!("{n}:from_repr_vartime:{vh}"), "from_repr_vartime disagrees with from_repr", json!({"field": n, "bytes": vh}));
                }
                match r {
                    Some(x) if *v >= p || canon(&x) != *v => {
                        fail(ctx, format!("{n}:from_repr:{vh}"), "from_repr accepts a non-canonical encoding or does not round-trip", json!({"field": n, "bytes": vh}))
                    }
                    None if *v < p => fail(ctx, format!("{n}:from_repr:{vh}"), "from_repr rejects a canonical encoding", json!({"field": n, "bytes": vh})),
                    _ => {}
                }
            }
        }
    }

    // batched operations
    let lists: Vec<Vec<usize>> = vec![
        vec![], vec![0], vec![1], vec![4], vec![0, 0], vec![4, 0, 5, 0, 9], (0..els.len()).collect(),
        (0..els.len()).rev().step_by(2).collect(),
    ];
    for l in &lists {
        let xs: Vec<F> = l.iter().map(|i| els[*i]).collect();
        let args = xs.iter().map(hx).collect::<Vec<_>>().join(" ");
        let s: F = xs.iter().copied().sum();
        let pr: F = xs.iter().copied().product();
        ctx.case("sum", l.len() > 2, &format!("pf {n} sum {args}"), &hx(&s));
        ctx.case("product", l.len() > 2, &format!("pf {n} product {args}"), &hx(&pr));
        let mut ys = xs.clone();
        let all_inv = ys.iter_mut().batch_invert();
        let ans = format!("{} {}", if ys.is_empty() { "-".to_string() } else { ys.iter().map(hx).collect::<Vec<_>>().join(",") }, hx(&all_inv));
        ctx.case("batch_invert", l.len() > 2, &format!("pf {n} batch_invert {args}"), &ans);
        let mut zs = xs.clone();
        let mut scratch = vec![F::ZERO; zs.len()];
        let all_inv2 = ff::BatchInverter::invert_with_external_scratch(&mut zs, &mut scratch);
        if zs != ys || all_inv2 != all_inv {
            fail(ctx, format!("{n}:batch-invert-scratch:{}", l.len()), "BatchInverter::invert_with_external_scratch differs from BatchInvert", json!({"field": n, "len": l.len()}));
        }
    }
}

/// `Fq::shl(0)` in a child process (blst's shift loops are `do { … } while (--count)` on a
/// 32-bit counter: a zero count runs 2^32 iterations and returns x·2^(2^32)).
pub fn probe_shift_zero_child() {
    let x = BlsFq::from(5u64);
    println!("{}", hx(&x.shl(0)));
}

fn probe_shift_zero(ctx: &mut Ctx) {
    let exe = std::env::current_exe().unwrap();
    let mut child = std::process::Command::new(exe)
        .arg("--probe-shift-zero")
        .stdout(std::process::Stdio::piped())
        .stderr(std::process::Stdio::null())
        .spawn()
        .expect("spawn probe");
    let t0 = Instant::now();
    let finished = loop {
        match child.try_wait().unwrap() {
            Some(_) => break true,
            None if t0.elapsed() > Duration::from_secs(3) => {
                let _ = child.kill();
                let _ = child.wait();
                break false;
            }
            None => std::thread::sleep(Duration::from_millis(20)),
        }
    };
    let mut out = String::new();
    if let Some(mut so) = child.stdout.take() {
        let _ = so.read_to_string(&mut out);
    }
    if !finished || out.trim() != "0x5" {
        ctx.oracle_fail(
            "bls12_381:shift-by-zero",
            "bls12_381 Fq::shl/shr, Fp::shl, Fp2::shl with count = 0 run 2^32 loop iterations in blst and return x·2^(±2^32) instead of x",
            json!({"call": "Fq::from(5).shl(0)", "finished_within_3s": finished, "got": out.trim(), "replay": "h-c10 --probe-shift-zero"}),
        );
    }
}

/// Sum / Product over iterators of references, run in a child process with a timeout
/// (regression of the self-recursive `impl Sum<&T> for T`, defect E1).
pub fn probe_sum_ref_child() {
    fn one<F: PF>() {
        let xs: Vec<F> = (1u64..=5).map(F::from).collect();
        let s: F = xs.iter().sum();
        let p: F = xs.iter().product();
        println!("{} {} {}", F::NAME, hx(&s), hx(&p));
    }
    one::<BlsFq>();
    one::<BlsFp>();
    one::<JubjubFr>();
    one::<C25519Fp>();
    one::<C25519Scalar>();
    one::<K256Fp>();
    one::<K256Fq>();
    one::<Bn256Fq>();
    one::<Bn256Fr>();
    crate::tower::probe_sum_ref_child();
}

fn probe_sum_ref(ctx: &mut Ctx) {
    let exe = std::env::current_exe().unwrap();
    let mut child = std::process::Command::new(exe)
        .arg("--probe-sum-ref")
        .stdout(std::process::Stdio::piped())
        .stderr(std::process::Stdio::null())
        .spawn()
        .expect("spawn probe");
    let t0 = Instant::now();
    let status = loop {
        match child.try_wait().unwrap() {
            Some(s) => break Some(s),
            None if t0.elapsed() > Duration::from_secs(20) => {
                let _ = child.kill();
                let _ = child.wait();
                break None;
            }
            None => std::thread::sleep(Duration::from_millis(20)),
        }
    };
    let mut out = String::new();
    if let Some(mut so) = child.stdout.take() {
        let _ = so.read_to_string(&mut out);
    }
    let ok = matches!(status, Some(s) if s.success());
    let lines: Vec<&str> = out.lines().collect();
    if !ok || lines.len() < 15 {
        ctx.oracle_fail(
            "sum-product-by-ref",
            "Sum<&T>/Product<&T> over an iterator of references does not terminate (or crashes)",
            json!({"completed": lines, "status": format!("{status:?}"), "replay": "h-c10 --probe-sum-ref"}),
        );
        return;
    }
    for l in lines {
        let w: Vec<&str> = l.split(' ').collect();
        if w.len() != 3 {
            continue;
        }
        if w[0].starts_with("tw:") {
            if w[1] != "ok" || w[2] != "ok" {
                ctx.oracle_fail("sum-product-by-ref", "Sum<&T>/Product<&T> of a tower type differs from the fold", json!({"line": l}));
            }
        } else {
            ctx.case("sum_ref", false, &format!("pf {} sum 0x1 0x2 0x3 0x4 0x5", w[0]), w[1]);
            ctx.case("product_ref", false, &format!("pf {} product 0x1 0x2 0x3 0x4 0x5", w[0]), w[2]);
        }
    }
}

fn run_legendre<F: PF + Legendre>(ctx: &mut Ctx) {
    let n = F::NAME;
    let cls = classes::<F>(ctx, crate::sz(ctx, 8, 100));
    for (c, v) in &cls {
        let a = fe::<F>(v);
        let av = big_hex(v);
        let l = a.legendre();
        ctx.case("legendre", *c == "random", &format!("pf {n} legendre {av}"), &format!("{l}"));
        let qr = bool::from(a.ct_quadratic_residue());
        let qnr = bool::from(a.ct_quadratic_non_residue());
        let has_root = bool::from(a.sqrt().is_some());
        if qr != (l != -1) || qnr != (l == -1) || has_root != qr {
            fail(ctx, format!("{n}:legendre:{av}"), "legendre / ct_quadratic_residue / sqrt().is_some() inconsistent", json!({"field": n, "a": av, "legendre": l}));
        }
    }
}

fn uniform_patterns(ctx: &Ctx, label: &str, len: usize, p: &BigUint) -> Vec<(&'static str, Vec<u8>)> {
    let mut v: Vec<(&'static str, Vec<u8>)> = vec![("zero", vec![0; len]), ("all-ff", vec![0xff; len])];
    for i in [0, 7, 8, 31, 32, 33, 47, 48, 63] {
        if i < len {
            let mut b = vec![0u8; len];
            b[i] = 1;
            v.push(("single-1", b.clone()));
            b[i] = 0x80;
            v.push(("single-80", b));
        }
    }
    let put = |x: &BigUint, off: usize| {
        let mut b = vec![0u8; len];
        let xb = x.to_bytes_le();
        for (i, y) in xb.iter().enumerate() {
            if off + i < len {
                b[off + i] = *y;
            }
        }
        b
    };
    for (c, x) in [("p", p.clone()), ("p-1", p - 1u32), ("p+1", p + 1u32), ("2p", p * 2u32)] {
        v.push((c, put(&x, 0)));
        let _ = c;
        v.push(("p-in-high-half", put(&x, 32.min(len - 1))));
    }
    if len == 64 {
        // both halves at the modulus boundary: (lo + hi·2^256) mod p with lo, hi in {p-1, p, 2^256-1}
        let halves = [("p-1", p - 1u32), ("p", p.clone()), ("2^256-1", (BigUint::one() << 256usize) - 1u32)];
        for (_, lo) in &halves {
            for (_, hi) in &halves {
                if lo.bits() <= 256 && hi.bits() <= 256 {
                    let mut b = put(lo, 0);
                    for (i, y) in hi.to_bytes_le().iter().enumerate() {
                        b[32 + i] = *y;
                    }
                    v.push(("lo|hi-at-modulus", b));
                }
            }
        }
    }
    let mut lo_ff = vec![0u8; len];
    for b in lo_ff.iter_mut().take(32) {
        *b = 0xff;
    }
    v.push(("low-half-ff", lo_ff.clone()));
    let hi_ff: Vec<u8> = lo_ff.iter().map(|b| !b).collect();
    v.push(("high-half-ff", hi_ff));
    let mut rng = ctx.rng(label);
    for _ in 0..(crate::sz(ctx, 12, 300)) {
        let mut b = vec![0u8; len];
        rng.fill_bytes(&mut b);
        v.push(("random", b));
    }
    v
}

fn run_uniform<const L: usize, F: PF + FromUniformBytes<L>>(ctx: &mut Ctx) {
    let n = F::NAME;
    let p = modulus::<F>();
    for (c, b) in uniform_patterns(ctx, &format!("uniform{L}:{n}"), L, &p) {
        ctx.count(&format!("uniform:{c}"));
        let arr: [u8; L] = b.clone().try_into().unwrap();
        let x = F::from_uniform_bytes(&arr);
        ctx.case(&format!("from_uniform_bytes{L}"), true, &format!("pf {n} reduce {}", big_hex(&BigUint::from_bytes_le(&b))), &hx(&x));
    }
}

/// `SerdeObject`: raw (Montgomery) codec, checked and unchecked, slice and reader variants.
fn run_serde_object<F: PF + SerdeObject>(ctx: &mut Ctx) {
    let n = F::NAME;
    let p = modulus::<F>();
    let len = 8 * F::LIMBS;
    let top = pow2(8 * len);
    let mut rng = ctx.rng(&format!("raw:{n}"));
    let mut vals: Vec<(&str, BigUint)> = vec![
        ("0", BigUint::zero()), ("1", BigUint::one()), ("p-1", &p - 1u32), ("p", p.clone()), ("p+1", &p + 1u32),
        ("all-ff", &top - 1u32), ("R", pow2(8 * len) % &p), ("2^bits", pow2(p.bits() as usize) % &top),
    ];
    for k in 0..F::LIMBS {
        vals.push(("p+2^64k", (&p + pow2(64 * k)) % &top));
        if p > pow2(64 * k) {
            vals.push(("p-2^64k", &p - pow2(64 * k)));
        }
    }
    for _ in 0..(crate::sz(ctx, 10, 200)) {
        let mut b = vec![0u8; len];
        rng.fill_bytes(&mut b);
        vals.push(("random-bytes", BigUint::from_bytes_le(&b)));
        vals.push(("random<p", BigUint::from_bytes_le(&b) % &p));
    }
    for (c, v) in &vals {
        ctx.count(&format!("raw:{c}"));
        let vh = big_hex(v);
        let mut bytes = v.to_bytes_le();
        bytes.resize(len, 0);
        let r = catch(|| F::from_raw_bytes(&bytes));
        match r {
            Err(e) => fail(ctx, format!("{n}:from_raw_bytes-panic:{vh}"), "from_raw_bytes panicked", json!({"field": n, "limbs": vh, "panic": e})),
            Ok(r) => {
                ctx.case("from_raw_bytes", true, &format!("pf {n} from_raw {vh}"), &r.map(|x| hx(&x)).unwrap_or("none".into()));
                if let Some(x) = r {
                    if *v >= p {
                        // D3 regression: limbs >= p must be rejected
                        fail(ctx, format!("{n}:from_raw_bytes:{vh}"), "from_raw_bytes accepts non-canonical Montgomery limbs (>= modulus)", json!({"field": n, "limbs": vh}));
                    }
                    if x.to_raw_bytes() != bytes {
                        fail(ctx, format!("{n}:raw-roundtrip:{vh}"), "to_raw_bytes(from_raw_bytes(b)) != b", json!({"field": n, "limbs": vh}));
                    }
                } else if *v < p {
                    fail(ctx, format!("{n}:from_raw_bytes:{vh}"), "from_raw_bytes rejects canonical Montgomery limbs", json!({"field": n, "limbs": vh}));
                }
                let rr = catch(|| F::read_raw(&mut &bytes[..]).ok());
                if rr != Ok(r) {
                    fail(ctx, format!("{n}:read_raw:{vh}"), "read_raw disagrees with from_raw_bytes", json!({"field": n, "limbs": vh}));
                }
            }
        }
        let u = F::from_raw_bytes_unchecked(&bytes);
        ctx.case("from_raw_bytes_unchecked", true, &format!("pf {n} from_raw_unchecked {vh}"), &hx(&u));
        let u2 = F::read_raw_unchecked(&mut &bytes[..]);
        let mut w = vec![];
        u.write_raw(&mut w).unwrap();
        if w != bytes || u.to_raw_bytes() != bytes || u2.to_raw_bytes() != bytes {
            fail(ctx, format!("{n}:raw-unchecked:{vh}"), "unchecked raw codec does not round-trip the bytes", json!({"field": n, "limbs": vh}));
        }
    }
    // truncated / over-long input
    for l in [0usize, 1, len - 1, len + 1] {
        let b = vec![0u8; l];
        match catch(|| F::from_raw_bytes(&b)) {
            Ok(None) => {}
            other => fail(ctx, format!("{n}:from_raw_bytes-len:{l}"), "from_raw_bytes on a wrong length is not None", json!({"field": n, "len": l, "got": format!("{other:?}")})),
        }
        if l < len && catch(|| F::read_raw(&mut &b[..]).is_err()) != Ok(true) {
            fail(ctx, format!("{n}:read_raw-len:{l}"), "read_raw on truncated input is not an error", json!({"field": n, "len": l}));
        }
    }
    // to_raw of canonical values
    for (c, v) in classes::<F>(ctx, 4) {
        let x = fe::<F>(&v);
        ctx.case("to_raw_bytes", c == "random", &format!("pf {n} to_raw {}", big_hex(&v)), &big_hex(&BigUint::from_bytes_le(&x.to_raw_bytes())));
    }
}

fn run_ord<F: PF + Ord>(ctx: &mut Ctx) {
    let n = F::NAME;
    let cls = classes::<F>(ctx, 4);
    for (_, va) in &cls {
        for (_, vb) in cls.iter().step_by(2) {
            let (a, b) = (fe::<F>(va), fe::<F>(vb));
            let o = match a.cmp(&b) {
                std::cmp::Ordering::Less => "lt",
                std::cmp::Ordering::Equal => "eq",
                std::cmp::Ordering::Greater => "gt",
            };
            ctx.case("cmp", false, &format!("pf {n} cmp {} {}", big_hex(va), big_hex(vb)), o);
        }
    }
}

/// BLS12-381 scalar/base specific public API.
fn run_bls_extras(ctx: &mut Ctx) {
    let cls = classes::<BlsFq>(ctx, 4);
    let p = modulus::<BlsFq>();
    for (c, v) in &cls {
        let a = fe::<BlsFq>(v);
        let av = big_hex(v);
        let nt = *c == "random";
        ctx.case("mul3", nt, &format!("pf BlsFq mul_small {av} 0x3"), &hx(&a.mul3()));
        for k in [1usize, 2, 7, 63, 64, 255] {
            ctx.case("shl", nt, &format!("pf BlsFq shl {av} 0x{k:x}"), &hx(&a.shl(k)));
            ctx.case("shr", nt, &format!("pf BlsFq shr {av} 0x{k:x}"), &hx(&a.shr(k)));
        }
        ctx.case("num_bits", nt, &format!("pf BlsFq num_bits {av}"), &format!("{}", a.num_bits()));
        let mut t = a;
        t.square_assign();
        let le = a.to_bytes_le();
        let mut be = a.to_bytes_be();
        let ok = t == a.square()
            && BigUint::from_bytes_le(&le) == *v
            && BigUint::from_bytes_be(&be) == *v
            && Option::<BlsFq>::from(BlsFq::from_bytes_le(&le)) == Some(a)
            && Option::<BlsFq>::from(BlsFq::from_bytes_be(&be)) == Some(a);
        be.reverse();
        let limbs: Vec<u64> = (0..4).map(|i| u64::from_le_bytes(le[8 * i..8 * i + 8].try_into().unwrap())).collect();
        let ok2 = Option::<BlsFq>::from(BlsFq::from_u64s_le(&limbs.clone().try_into().unwrap())) == Some(a) && be == le;
        let js = serde_json::to_string(&a).unwrap();
        let back: Result<BlsFq, _> = serde_json::from_str(&js);
        if !ok || !ok2 || back.ok() != Some(a) {
            fail(ctx, format!("BlsFq:codecs:{av}"), "bytes_le/bytes_be/u64s_le/serde codecs or square_assign inconsistent", json!({"a": av}));
        }
    }
    if BigUint::from_bytes_le(&BlsFq::char()) != p {
        fail(ctx, "BlsFq:char".into(), "char() is not the modulus", json!({}));
    }
    ctx.case("const", true, "const BlsFq CHAR", &big_hex(&BigUint::from_bytes_le(&BlsFq::char())));
    ctx.case("const", true, "const BlsFq ZETA", &hx(&<BlsFq as ff::WithSmallOrderMulGroup<3>>::ZETA));
    zeta_oracle::<BlsFq>(ctx);
    zeta_oracle::<BlsFp>(ctx);
    zeta_oracle::<C25519Fp>(ctx);
    zeta_oracle::<Bn256Fq>(ctx);
    zeta_oracle::<Bn256Fr>(ctx);
    // non-canonical inputs of the remaining checked decoders
    for v in [p.clone(), &p + 1u32, pow2(256) - 1u32, pow2(255)] {
        let mut b = v.to_bytes_le();
        b.resize(32, 0);
        let arr: [u8; 32] = b.clone().try_into().unwrap();
        let mut bea = arr;
        bea.reverse();
        let limbs: [u64; 4] = core::array::from_fn(|i| u64::from_le_bytes(arr[8 * i..8 * i + 8].try_into().unwrap()));
        let js = format!("[{},{},{},{}]", limbs[0], limbs[1], limbs[2], limbs[3]);
        let any = bool::from(BlsFq::from_bytes_le(&arr).is_some())
            || bool::from(BlsFq::from_bytes_be(&bea).is_some())
            || bool::from(BlsFq::from_u64s_le(&limbs).is_some())
            || serde_json::from_str::<BlsFq>(&js).is_ok();
        if any {
            fail(ctx, format!("BlsFq:noncanonical:{}", big_hex(&v)), "a checked decoder accepts a non-canonical encoding", json!({"v": big_hex(&v)}));
        }
    }

    let cls = classes::<BlsFp>(ctx, 4);
    let p = modulus::<BlsFp>();
    for (c, v) in &cls {
        let a = fe::<BlsFp>(v);
        let av = big_hex(v);
        let nt = *c == "random";
        ctx.case("mul3", nt, &format!("pf BlsFp mul_small {av} 0x3"), &hx(&a.mul3()));
        ctx.case("mul8", nt, &format!("pf BlsFp mul_small {av} 0x8"), &hx(&a.mul8()));
        for k in [1usize, 2, 7, 63, 64, 255] {
            ctx.case("shl", nt, &format!("pf BlsFp shl {av} 0x{k:x}"), &hx(&a.shl(k)));
        }
        ctx.case("num_bits", nt, &format!("pf BlsFp num_bits {av}"), &format!("{}", a.num_bits()));
        let mut t = a;
        t.square_assign();
        let le = a.to_bytes_le();
        let be = a.to_bytes_be();
        let limbs: [u64; 6] = core::array::from_fn(|i| u64::from_le_bytes(le[8 * i..8 * i + 8].try_into().unwrap()));
        let js = serde_json::to_string(&a).unwrap();
        let back: Result<BlsFp, _> = serde_json::from_str(&js);
        let ok = t == a.square()
            && BigUint::from_bytes_le(&le) == *v
            && BigUint::from_bytes_be(&be) == *v
            && Option::<BlsFp>::from(BlsFp::from_bytes_le(&le)) == Some(a)
            && Option::<BlsFp>::from(BlsFp::from_bytes_be(&be)) == Some(a)
            && Option::<BlsFp>::from(BlsFp::from_u64s_le(&limbs)) == Some(a)
            && back.ok() == Some(a);
        if !ok {
            fail(ctx, format!("BlsFp:codecs:{av}"), "bytes_le/bytes_be/u64s_le/serde codecs or square_assign inconsistent", json!({"a": av}));
        }
    }
    ctx.case("const", true, "const BlsFp CHAR", &big_hex(&BigUint::from_bytes_le(&BlsFp::char())));
    ctx.case("const", true, "const BlsFp ZETA", &hx(&<BlsFp as ff::WithSmallOrderMulGroup<3>>::ZETA));
    for v in [p.clone(), &p + 1u32, pow2(384) - 1u32, pow2(381)] {
        let mut b = v.to_bytes_le();
        b.resize(48, 0);
        let arr: [u8; 48] = b.clone().try_into().unwrap();
        let mut bea = arr;
        bea.reverse();
        let limbs: [u64; 6] = core::array::from_fn(|i| u64::from_le_bytes(arr[8 * i..8 * i + 8].try_into().unwrap()));
        let js = format!("[{}]", limbs.iter().map(|l| l.to_string()).collect::<Vec<_>>().join(","));
        let any = bool::from(BlsFp::from_bytes_le(&arr).is_some())
            || bool::from(BlsFp::from_bytes_be(&bea).is_some())
            || bool::from(BlsFp::from_u64s_le(&limbs).is_some())
            || serde_json::from_str::<BlsFp>(&js).is_ok();
        if any {
            fail(ctx, format!("BlsFp:noncanonical:{}", big_hex(&v)), "a checked decoder accepts a non-canonical encoding", json!({"v": big_hex(&v)}));
        }
    }
    // E4 (known finding): the placeholder two-adicity constants of the base field
    let true_s = {
        let mut t = &p - 1u32;
        let mut s = 0u32;
        while (&t % 2u32).is_zero() {
            t /= 2u32;
            s += 1;
        }
        s
    };
    let g = canon(&BlsFp::MULTIPLICATIVE_GENERATOR);
    let delta_ok = canon(&BlsFp::DELTA) == g.modpow(&pow2(BlsFp::S as usize), &p);
    if BlsFp::S != true_s || !delta_ok {
        ctx.oracle_fail(
            "bls12_381.Fp:S-DELTA-placeholders",
            "bls12_381::Fp publishes S = 0, ROOT_OF_UNITY = 1, DELTA = 0: p - 1 = 2^S·t with t odd and DELTA = g^(2^S) do not hold (true S = 1)",
            json!({"S": BlsFp::S, "true_S": true_s, "DELTA": hx(&BlsFp::DELTA), "g^(2^S)": big_hex(&g.modpow(&pow2(BlsFp::S as usize), &p))}),
        );
    }
}

fn zeta_oracle<F: PF + ff::WithSmallOrderMulGroup<3>>(ctx: &mut Ctx) {
    let z = F::ZETA;
    if z == F::ONE || z * z * z != F::ONE {
        fail(ctx, format!("{}:constants:ZETA", F::NAME), "ZETA is not a primitive cube root of unity", json!({"field": F::NAME}));
    }
}

fn run_c25519_extras(ctx: &mut Ctx) {
    let cls = classes::<C25519Fp>(ctx, 6);
    for (c, v) in &cls {
        let a = fe::<C25519Fp>(v);
        let av = big_hex(v);
        let ll = a.lexicographically_largest().unwrap_u8();
        let l = a.0;
        ctx.case("lf.lex_largest", *c == "random", &format!("lf C25519Fp lex_largest 0x{:x},0x{:x},0x{:x},0x{:x}", l[0], l[1], l[2], l[3]), &format!("{ll}"));
        // the specification: strictly larger than the negation
        let spec = *v > (&modulus::<C25519Fp>() - v) % modulus::<C25519Fp>();
        if (ll == 1) != spec {
            let key = if *v == (modulus::<C25519Fp>() - 1u32) / 2u32 {
                "curve25519.Fp:lexicographically_largest:(p-1)/2".to_string()
            } else {
                format!("C25519Fp:lex_largest:{av}")
            };
            fail(ctx, key, "curve25519 Fp::lexicographically_largest(x) differs from x > -x", json!({"x": av, "got": ll}));
        }
        let js = serde_json::to_string(&a).unwrap();
        let back: Result<C25519Fp, _> = serde_json::from_str(&js);
        if back.ok() != Some(a) || BigUint::from_bytes_le(&a.to_bytes()) != *v || Option::<C25519Fp>::from(C25519Fp::from_bytes(&a.to_bytes())) != Some(a) {
            fail(ctx, format!("C25519Fp:codecs:{av}"), "to_bytes/from_bytes/serde do not round-trip", json!({"a": av}));
        }
    }
    ctx.case("const", true, "const C25519Fp ZETA", &hx(&<C25519Fp as ff::WithSmallOrderMulGroup<3>>::ZETA));
    ctx.case("const", true, "const Bn256Fq ZETA", &hx(&<Bn256Fq as ff::WithSmallOrderMulGroup<3>>::ZETA));
    ctx.case("const", true, "const Bn256Fr ZETA", &hx(&<Bn256Fr as ff::WithSmallOrderMulGroup<3>>::ZETA));
    let p = modulus::<C25519Fp>();
    for v in [p.clone(), &p + 1u32, pow2(256) - 1u32, pow2(255)] {
        let mut b = v.to_bytes_le();
        b.resize(32, 0);
        let arr: [u8; 32] = b.try_into().unwrap();
        let js = format!("\"{}\"", arr.iter().map(|x| format!("{x:02x}")).collect::<String>());
        if bool::from(C25519Fp::from_bytes(&arr).is_some()) || serde_json::from_str::<C25519Fp>(&js).is_ok() {
            fail(ctx, format!("C25519Fp:noncanonical:{}", big_hex(&v)), "a checked decoder accepts a non-canonical encoding", json!({"v": big_hex(&v)}));
        }
    }
}

fn run_jubjub_extras(ctx: &mut Ctx) {
    let p = modulus::<JubjubFr>();
    for (c, b) in uniform_patterns(ctx, "wide:JubjubFr", 64, &p) {
        ctx.count(&format!("uniform:{c}"));
        let arr: [u8; 64] = b.clone().try_into().unwrap();
        let x = JubjubFr::from_bytes_wide(&arr);
        ctx.case("from_bytes_wide", true, &format!("pf JubjubFr reduce {}", big_hex(&BigUint::from_bytes_le(&b))), &hx(&x));
    }
    for (_, v) in classes::<JubjubFr>(ctx, 4) {
        let a = fe::<JubjubFr>(&v);
        let bytes: [u8; 32] = a.into();
        if BigUint::from_bytes_le(&bytes) != v || Option::<JubjubFr>::from(JubjubFr::from_bytes(&bytes)) != Some(a) || a.double() != a + a {
            fail(ctx, format!("JubjubFr:codecs:{}", big_hex(&v)), "to_bytes/from_bytes do not round-trip", json!({"a": big_hex(&v)}));
        }
    }
}

fn stage(s: &str) {
    if std::env::var("C10_TRACE").is_ok() {
        eprintln!("[h-c10] {s}");
    }
}

pub fn run(ctx: &mut Ctx) {
    stage("run_core::<BlsFq>(ctx);");
    run_core::<BlsFq>(ctx);
    stage("run_core::<BlsFp>(ctx);");
    run_core::<BlsFp>(ctx);
    stage("run_core::<JubjubFr>(ctx);");
    run_core::<JubjubFr>(ctx);
    stage("run_core::<C25519Fp>(ctx);");
    run_core::<C25519Fp>(ctx);
    stage("run_core::<C25519Scalar>(ctx);");
    run_core::<C25519Scalar>(ctx);
    stage("run_core::<K256Fp>(ctx);");
    run_core::<K256Fp>(ctx);
    stage("run_core::<K256Fq>(ctx);");
    run_core::<K256Fq>(ctx);
    stage("run_core::<Bn256Fq>(ctx);");
    run_core::<Bn256Fq>(ctx);
    stage("run_core::<Bn256Fr>(ctx);");
    run_core::<Bn256Fr>(ctx);

    stage("run_legendre::<BlsFq>(ctx);");
    run_legendre::<BlsFq>(ctx);
    stage("run_legendre::<BlsFp>(ctx);");
    run_legendre::<BlsFp>(ctx);
    stage("run_legendre::<C25519Fp>(ctx);");
    run_legendre::<C25519Fp>(ctx);
    stage("run_legendre::<Bn256Fq>(ctx);");
    run_legendre::<Bn256Fq>(ctx);
    stage("run_legendre::<Bn256Fr>(ctx);");
    run_legendre::<Bn256Fr>(ctx);

    stage("run_uniform::<64, BlsFq>(ctx);");
    run_uniform::<64, BlsFq>(ctx);
    stage("run_uniform::<64, C25519Fp>(ctx);");
    run_uniform::<64, C25519Fp>(ctx);
    stage("run_uniform::<48, C25519Fp>(ctx);");
    run_uniform::<48, C25519Fp>(ctx);
    stage("run_uniform::<64, C25519Scalar>(ctx);");
    run_uniform::<64, C25519Scalar>(ctx);
    stage("run_uniform::<64, Bn256Fq>(ctx);");
    run_uniform::<64, Bn256Fq>(ctx);
    stage("run_uniform::<48, Bn256Fq>(ctx);");
    run_uniform::<48, Bn256Fq>(ctx);
    stage("run_uniform::<64, Bn256Fr>(ctx);");
    run_uniform::<64, Bn256Fr>(ctx);
    stage("run_uniform::<48, Bn256Fr>(ctx);");
    run_uniform::<48, Bn256Fr>(ctx);

    stage("run_serde_object::<BlsFq>(ctx);");
    run_serde_object::<BlsFq>(ctx);
    stage("run_serde_object::<BlsFp>(ctx);");
    run_serde_object::<BlsFp>(ctx);
    stage("run_serde_object::<C25519Fp>(ctx);");
    run_serde_object::<C25519Fp>(ctx);
    stage("run_serde_object::<Bn256Fq>(ctx);");
    run_serde_object::<Bn256Fq>(ctx);
    stage("run_serde_object::<Bn256Fr>(ctx);");
    run_serde_object::<Bn256Fr>(ctx);

    stage("run_ord::<BlsFq>(ctx);");
    run_ord::<BlsFq>(ctx);
    stage("run_ord::<BlsFp>(ctx);");
    run_ord::<BlsFp>(ctx);
    stage("run_ord::<JubjubFr>(ctx);");
    run_ord::<JubjubFr>(ctx);
    stage("run_ord::<C25519Fp>(ctx);");
    run_ord::<C25519Fp>(ctx);
    stage("run_ord::<Bn256Fq>(ctx);");
    run_ord::<Bn256Fq>(ctx);
    stage("run_ord::<Bn256Fr>(ctx);");
    run_ord::<Bn256Fr>(ctx);

    stage("run_bls_extras(ctx);");
    run_bls_extras(ctx);
    stage("run_c25519_extras(ctx);");
    run_c25519_extras(ctx);
    stage("run_jubjub_extras(ctx);");
    run_jubjub_extras(ctx);
    stage("probe_sum_ref(ctx);");
    probe_sum_ref(ctx);
    probe_shift_zero(ctx);
}
