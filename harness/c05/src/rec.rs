//! A small `Assignment` backend that logs, for one real synthesis, the regions (by name) and
//! every advice assignment in call order with its absolute cell and value. The call order is the
//! index space of hook H1 (`verif_hooks::TamperPlan`); the absolute cells are the index space of
//! hook H2 (`MockProver::verif_advice_mut`). `Assignment` is a public trait: no hook needed.
use midnight_proofs::{
    circuit::Value,
    plonk::{Advice, Any, Assignment, Challenge, Column, Error, Fixed, Instance, Selector},
    utils::rational::Rational,
};

#[derive(Clone, Debug)]
pub struct AdvCell<F> {
    /// index among the advice assignments with a known value (H1 index space)
    pub idx: usize,
    pub region: usize,
    pub col: usize,
    pub row: usize,
    pub val: Option<F>,
}

#[derive(Clone, Debug, Default)]
pub struct RegionRec {
    pub name: String,
    pub first_row: Option<usize>,
    pub selectors: Vec<(usize, usize)>,
}

pub struct Rec<F> {
    pub regions: Vec<RegionRec>,
    pub cells: Vec<AdvCell<F>>,
    pub copies: Vec<((Column<Any>, usize), (Column<Any>, usize))>,
    pub max_row: usize,
    cur: Option<usize>,
    known: usize,
}

impl<F> Default for Rec<F> {
    fn default() -> Self {
        Rec { regions: vec![], cells: vec![], copies: vec![], max_row: 0, cur: None, known: 0 }
    }
}

impl<F: ff::Field> Assignment<F> for Rec<F> {
    fn enter_region<NR, N>(&mut self, name_fn: N)
    where
        NR: Into<String>,
        N: FnOnce() -> NR,
    {
        self.regions.push(RegionRec { name: name_fn().into(), ..Default::default() });
        self.cur = Some(self.regions.len() - 1);
    }

    fn annotate_column<A, AR>(&mut self, _annotation: A, _column: Column<Any>)
    where
        A: FnOnce() -> AR,
        AR: Into<String>,
    {
    }

    fn exit_region(&mut self) {
        self.cur = None;
    }

    fn enable_selector<A, AR>(&mut self, _: A, selector: &Selector, row: usize) -> Result<(), Error>
    where
        A: FnOnce() -> AR,
        AR: Into<String>,
    {
        if let Some(k) = self.cur {
            self.regions[k].selectors.push((selector.index(), row));
        }
        self.max_row = self.max_row.max(row);
        Ok(())
    }

    fn query_instance(&self, _column: Column<Instance>, _row: usize) -> Result<Value<F>, Error> {
        Ok(Value::unknown())
    }

    fn assign_advice<V, VR, A, AR>(
        &mut self,
        _: A,
        column: Column<Advice>,
        row: usize,
        to: V,
    ) -> Result<(), Error>
    where
        V: FnOnce() -> Value<VR>,
        VR: Into<Rational<F>>,
        A: FnOnce() -> AR,
        AR: Into<String>,
    {
        let k = self.cur.expect("advice outside region");
        let mut val = None;
        to().map(|v| {
            let r: Rational<F> = v.into();
            val = Some(r.evaluate());
        });
        let idx = self.known;
        if val.is_some() {
            self.known += 1;
        }
        let r = &mut self.regions[k];
        r.first_row = Some(r.first_row.map_or(row, |x| x.min(row)));
        self.cells.push(AdvCell { idx, region: k, col: column.index(), row, val });
        self.max_row = self.max_row.max(row);
        Ok(())
    }

    fn assign_fixed<V, VR, A, AR>(
        &mut self,
        _: A,
        _column: Column<Fixed>,
        row: usize,
        _to: V,
    ) -> Result<(), Error>
    where
        V: FnOnce() -> Value<VR>,
        VR: Into<Rational<F>>,
        A: FnOnce() -> AR,
        AR: Into<String>,
    {
        self.max_row = self.max_row.max(row);
        Ok(())
    }

    fn copy(
        &mut self,
        left_column: Column<Any>,
        left_row: usize,
        right_column: Column<Any>,
        right_row: usize,
    ) -> Result<(), Error> {
        self.copies.push(((left_column, left_row), (right_column, right_row)));
        Ok(())
    }

    fn fill_from_row(
        &mut self,
        _column: Column<Fixed>,
        _row: usize,
        _to: Value<Rational<F>>,
    ) -> Result<(), Error> {
        Ok(())
    }

    fn get_challenge(&self, _challenge: Challenge) -> Value<F> {
        Value::unknown()
    }

    fn push_namespace<NR, N>(&mut self, _: N)
    where
        NR: Into<String>,
        N: FnOnce() -> NR,
    {
    }

    fn pop_namespace(&mut self, _: Option<String>) {}
}
