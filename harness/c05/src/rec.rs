//! A small `Assignment` backend that logs, for one real synthesis, the regions (by name) and
//! every advice assignment in call order with its absolute cell and value. The call order is the
//! index space of hook H1 (`verif_hooks::TamperPlan`); the absolute cells are the index space of
//! hook H2 (`MockProver::verif_advice_mut`). `Assignment` is a public trait: no hook needed.
use midnight_proofs::{
    circuit::Value,
    plonk::{Advice, Any, Assignment, Challenge, Column, Error, Fixed, Instance, Selector},
    utils::rational::Rational,
};

#[derive(Clone, Debug)]
pub struct AdvCell<F> {
    /// index among the advice assignments with a known value (H1 index space)
    pub idx: usize,
    pub region: usize,
    pub col: usize,
    pub row: usize,
    pub val: Option<F>,
}

/// Column key: (`a`dvice / `f`ixed / `i`nstance / `s`elector, index).
pub type ColKey = (char, usize);

#[derive(Clone, Debug, Default)]
pub struct RegionRec {
    pub name: String,
    pub first_row: Option<usize>,
    pub selectors: Vec<(usize, usize)>,
    /// program operation (`trace::cur_op`) during which the region was entered
    pub op: usize,
    /// first row of the region as placed by the single-pass layouter (re-derived: the earliest
    /// row at which none of the region's columns is in use)
    pub start: usize,
    /// fixed assignments made inside the region, in call order: (annotation, absolute row, value
    /// as canonical integer)
    pub fixed_seq: Vec<(String, usize, num_bigint::BigUint)>,
    /// columns touched (advice, fixed, selectors) and the largest absolute row assigned
    cols: std::collections::BTreeSet<ColKey>,
    last_row: Option<usize>,
}

/// One copy constraint with absolute cells.
#[derive(Clone, Debug)]
pub struct CopyRec {
    pub left: (ColKey, usize),
    pub right: (ColKey, usize),
    pub op: usize,
    /// index of the last region entered before the constraint was emitted
    pub region: usize,
}

pub struct Rec<F> {
    pub regions: Vec<RegionRec>,
    pub cells: Vec<AdvCell<F>>,
    pub copies: Vec<CopyRec>,
    /// values of the fixed cells assigned (absolute cell -> value)
    pub fixed: std::collections::HashMap<(ColKey, usize), F>,
    pub max_row: usize,
    cur: Option<usize>,
    known: usize,
    /// next free row per column (the layouter's `columns` map)
    next_free: std::collections::HashMap<ColKey, usize>,
    cell_index: std::collections::HashSet<(usize, usize, usize)>,
}

impl<F> Default for Rec<F> {
    fn default() -> Self {
        Rec {
            regions: vec![],
            cells: vec![],
            copies: vec![],
            fixed: Default::default(),
            max_row: 0,
            cur: None,
            known: 0,
            next_free: Default::default(),
            cell_index: Default::default(),
        }
    }
}

impl<F> Rec<F> {
    /// First row of region `k` (see `RegionRec::start`).
    pub fn region_start(&self, k: usize) -> usize {
        self.regions.get(k).map(|r| r.start).unwrap_or(0)
    }
    /// Whether region `k` assigned the advice cell (`col`, absolute `row`).
    pub fn has_cell(&self, k: usize, col: usize, row: usize) -> bool {
        self.cell_index.contains(&(k, col, row))
    }
    fn touch(&mut self, key: ColKey, row: usize) {
        if let Some(k) = self.cur {
            let r = &mut self.regions[k];
            r.cols.insert(key);
            r.last_row = Some(r.last_row.map_or(row, |x| x.max(row)));
        }
    }
}

impl<F: midnight_circuits::CircuitField> Assignment<F> for Rec<F> {
    fn enter_region<NR, N>(&mut self, name_fn: N)
    where
        NR: Into<String>,
        N: FnOnce() -> NR,
    {
        self.regions.push(RegionRec { name: name_fn().into(), op: crate::trace::cur_op(), ..Default::default() });
        self.cur = Some(self.regions.len() - 1);
    }

    fn annotate_column<A, AR>(&mut self, _annotation: A, _column: Column<Any>)
    where
        A: FnOnce() -> AR,
        AR: Into<String>,
    {
    }

    fn exit_region(&mut self) {
        // the single-pass layouter placed the region at the earliest row at which none of its
        // columns is in use; every column it touched is then in use up to its last row
        if let Some(k) = self.cur {
            let cols: Vec<ColKey> = self.regions[k].cols.iter().copied().collect();
            let start = cols.iter().map(|c| self.next_free.get(c).copied().unwrap_or(0)).max().unwrap_or(0);
            self.regions[k].start = start;
            if let Some(last) = self.regions[k].last_row {
                for c in cols {
                    self.next_free.insert(c, last + 1);
                }
            }
        }
        self.cur = None;
    }

    fn enable_selector<A, AR>(&mut self, _: A, selector: &Selector, row: usize) -> Result<(), Error>
    where
        A: FnOnce() -> AR,
        AR: Into<String>,
    {
        if let Some(k) = self.cur {
            self.regions[k].selectors.push((selector.index(), row));
        }
        self.touch(('s', selector.index()), row);
        self.max_row = self.max_row.max(row);
        Ok(())
    }

    fn query_instance(&self, _column: Column<Instance>, _row: usize) -> Result<Value<F>, Error> {
        Ok(Value::unknown())
    }

    fn assign_advice<V, VR, A, AR>(
        &mut self,
        _: A,
        column: Column<Advice>,
        row: usize,
        to: V,
    ) -> Result<(), Error>
    where
        V: FnOnce() -> Value<VR>,
        VR: Into<Rational<F>>,
        A: FnOnce() -> AR,
        AR: Into<String>,
    {
        let k = self.cur.expect("advice outside region");
        let mut val = None;
        to().map(|v| {
            let r: Rational<F> = v.into();
            val = Some(r.evaluate());
        });
        let idx = self.known;
        if val.is_some() {
            self.known += 1;
        }
        let r = &mut self.regions[k];
        r.first_row = Some(r.first_row.map_or(row, |x| x.min(row)));
        self.cells.push(AdvCell { idx, region: k, col: column.index(), row, val });
        self.cell_index.insert((k, column.index(), row));
        self.touch(('a', column.index()), row);
        self.max_row = self.max_row.max(row);
        Ok(())
    }

    fn assign_fixed<V, VR, A, AR>(
        &mut self,
        annotation: A,
        column: Column<Fixed>,
        row: usize,
        to: V,
    ) -> Result<(), Error>
    where
        V: FnOnce() -> Value<VR>,
        VR: Into<Rational<F>>,
        A: FnOnce() -> AR,
        AR: Into<String>,
    {
        let key: ColKey = ('f', column.index());
        let mut fv = None;
        to().map(|v| {
            let r: Rational<F> = v.into();
            fv = Some(r.evaluate());
        });
        if let Some(v) = fv {
            self.fixed.insert((key, row), v);
            if let Some(k) = self.cur {
                let name: String = annotation().into();
                self.regions[k].fixed_seq.push((name, row, v.to_biguint()));
            }
        }
        if self.cur.is_some() {
            self.touch(key, row);
        } else {
            // a constant assigned by the layouter after the region (constants column)
            let e = self.next_free.entry(key).or_insert(0);
            *e = (*e).max(row + 1);
        }
        self.max_row = self.max_row.max(row);
        Ok(())
    }

    fn copy(
        &mut self,
        left_column: Column<Any>,
        left_row: usize,
        right_column: Column<Any>,
        right_row: usize,
    ) -> Result<(), Error> {
        self.copies.push(CopyRec {
            left: (crate::trace::col_key(&left_column), left_row),
            right: (crate::trace::col_key(&right_column), right_row),
            op: crate::trace::cur_op(),
            region: self.regions.len().saturating_sub(1),
        });
        Ok(())
    }

    fn fill_from_row(
        &mut self,
        _column: Column<Fixed>,
        _row: usize,
        _to: Value<Rational<F>>,
    ) -> Result<(), Error> {
        Ok(())
    }

    fn get_challenge(&self, _challenge: Challenge) -> Value<F> {
        Value::unknown()
    }

    fn push_namespace<NR, N>(&mut self, _: N)
    where
        NR: Into<String>,
        N: FnOnce() -> NR,
    {
    }

    fn pop_namespace(&mut self, _: Option<String>) {}
}
