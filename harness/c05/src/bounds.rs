//! Parameter sets and the auxiliary-bounds function: what the running code reports
//! vs the generated Lean constants / the Lean model.
use midnight_circuits::{
    field::foreign::{
        params::FieldEmulationParams, verif_hooks as fh, well_formed_log2_bounds,
    },
    CircuitField,
};
use mzkh::{catch, Ctx};
use num_bigint::{BigInt as BI, RandBigInt, ToBigInt};
use num_traits::{One, Signed, Zero};
use rand::Rng;
use serde_json::json;

use crate::sets::MEP;

pub fn ints(v: &[BI]) -> String {
    mzkh::join(v)
}
pub fn pairs(v: &[(BI, BI)]) -> String {
    if v.is_empty() {
        "-".into()
    } else {
        v.iter().map(|(a, b)| format!("{a}:{b}")).collect::<Vec<_>>().join(",")
    }
}
fn aux(r: &Result<fh::AuxBounds, String>) -> String {
    match r {
        Ok(((k, u), vs)) => format!("{k} {u} {}", pairs(vs)),
        Err(e) if e.contains("lcm-threshold") => "panic:lcm".into(),
        Err(e) if e.contains("wrap-around") => "panic:wrap".into(),
        Err(e) => format!("panic:other:{e}"),
    }
}

fn modulus<F: CircuitField>() -> BI {
    F::modulus().to_bigint().unwrap()
}

/// One compiled-in set: constants, base powers, check_params, well-formed bounds, mul/norm bounds.
fn set_lines<F, K, P>(ctx: &mut Ctx, name: &str)
where
    F: CircuitField,
    K: CircuitField,
    P: FieldEmulationParams<F, K>,
{
    ctx.case(
        "params",
        true,
        &format!("params {name}"),
        &format!(
            "{} {} {} {} {} {} {}",
            modulus::<F>(),
            modulus::<K>(),
            P::LOG2_BASE,
            P::NB_LIMBS,
            ints(&P::moduli()),
            P::RC_LIMB_SIZE,
            P::max_limb_bound()
        ),
    );
    ctx.case(
        "bpow",
        true,
        &format!("bpow {name}"),
        &format!("{} {}", ints(&P::base_powers()), ints(&P::double_base_powers())),
    );
    let chk = catch(|| fh::verif_check_params::<F, K, P>());
    ctx.case("chk", true, &format!("chk {name}"), if chk.is_ok() { "ok" } else { "panic" });
    let wf = catch(|| well_formed_log2_bounds::<F, K, P>());
    ctx.case(
        "wf",
        true,
        &format!("wf {name}"),
        &match wf {
            Ok(v) => mzkh::join(&v),
            Err(_) => "panic".into(),
        },
    );
    let mb = catch(|| fh::mul_bounds::<F, K, P>());
    ctx.case("mulb", true, &format!("mulb {name}"), &aux(&mb));
    let nb = catch(|| fh::norm_bounds::<F, K, P>());
    ctx.case("normb", true, &format!("normb {name}"), &aux(&nb));
    // the property needs every compiled-in set to configure
    if chk.is_err() || mb.is_err() || nb.is_err() {
        ctx.oracle_fail(
            &format!("configure:{name}"),
            "a compiled-in parameter set fails its configure-time checks",
            json!({"set": name, "check_params": chk.is_ok(), "mul_bounds": aux(&mb), "norm_bounds": aux(&nb)}),
        );
    }
}

/// `get_identity_auxiliary_bounds::<F, K>` on one argument tuple.
fn auxb_line<F: CircuitField, K: CircuitField>(
    ctx: &mut Ctx,
    kind: &str,
    moduli: &[BI],
    eb: (BI, BI),
    mjb: &[(BI, BI)],
) {
    let r = catch(|| fh::identity_auxiliary_bounds::<F, K>(moduli, eb.clone(), mjb));
    let ans = aux(&r);
    ctx.count(&format!(
        "auxb-result:{}",
        if r.is_ok() { "ok" } else { ans.as_str() }
    ));
    ctx.case(
        kind,
        true,
        &format!(
            "auxb {} {} {} {} {} {}",
            modulus::<F>(),
            modulus::<K>(),
            ints(moduli),
            eb.0,
            eb.1,
            pairs(mjb)
        ),
        &ans,
    );
}

/// Random and boundary argument tuples around the shapes the gates use.
fn auxb_random<F: CircuitField, K: CircuitField>(ctx: &mut Ctx, label: &str, n: usize) {
    let mut rng = ctx.rng(&format!("auxb:{label}"));
    let p = modulus::<F>();
    let m = modulus::<K>();
    let pbits = p.bits();
    for it in 0..n {
        let nb_mod = rng.gen_range(0..=3usize);
        let mut moduli = vec![];
        for _ in 0..nb_mod {
            let bits = rng.gen_range(12..pbits.saturating_sub(100).max(14));
            let mut mj = BI::one() << bits;
            match rng.gen_range(0..4) {
                0 => {}
                1 => mj -= BI::one(),
                2 => mj -= BI::from(rng.gen_range(1u32..1000)),
                _ => mj = rng.gen_bigint_range(&BI::from(2), &mj),
            }
            moduli.push(mj);
        }
        // expression bounds: from tiny to beyond what the moduli support
        let ebits = match it % 5 {
            0 => rng.gen_range(1..64u64),
            1 => rng.gen_range(64..m.bits()),
            2 => rng.gen_range(m.bits()..2 * m.bits() + 10),
            3 => rng.gen_range(2 * m.bits()..3 * m.bits()),
            _ => rng.gen_range(1..pbits + 300),
        };
        let hi = rng.gen_bigint_range(&BI::zero(), &(BI::one() << ebits));
        let lo = match rng.gen_range(0..4) {
            0 => BI::zero(),
            1 => -rng.gen_bigint_range(&BI::zero(), &(BI::one() << (ebits / 2 + 1))),
            2 => -rng.gen_bigint_range(&BI::zero(), &(BI::one() << ebits)),
            _ => hi.clone() - rng.gen_bigint_range(&BI::zero(), &(hi.clone() + BI::one())),
        };
        let nb_b = match rng.gen_range(0..6) {
            0 => nb_mod.saturating_sub(1),
            _ => nb_mod,
        };
        let mut mjb = vec![];
        for j in 0..nb_b {
            let mj = &moduli[j];
            // bounds of an expression with coefficients reduced mod mj: a few limb products
            let width = mj.bits() + rng.gen_range(0..140u64);
            let h = rng.gen_bigint_range(&BI::zero(), &(BI::one() << width));
            let l = if rng.gen_bool(0.5) {
                -rng.gen_bigint_range(&BI::zero(), &(BI::one() << (width / 2 + 1)))
            } else {
                BI::zero()
            };
            mjb.push((l, h));
        }
        auxb_line::<F, K>(ctx, &format!("auxb:{label}"), &moduli, (lo, hi), &mjb);
    }
}

/// The gates' own argument tuples with perturbed bounds (a wider limb bound, one modulus
/// dropped, one more modulus): exercises the lcm loop exactly at its thresholds.
fn auxb_near_gate<F, K, P>(ctx: &mut Ctx, name: &str)
where
    F: CircuitField,
    K: CircuitField,
    P: FieldEmulationParams<F, K>,
{
    let mut rng = ctx.rng(&format!("auxb-near:{name}"));
    let moduli = P::moduli();
    let bp = P::base_powers();
    let n = P::NB_LIMBS as usize;
    let base = BI::one() << P::LOG2_BASE;
    let sum = |c: &[BI], v: &BI| c.iter().map(|x| x * v).sum::<BI>();
    for extra_bits in [0u32, 1, 2, 8, 30, 64, 100] {
        for drop in [false, true] {
            let lim = (&base << extra_bits) - BI::one();
            let mut mods = moduli.clone();
            if drop && !mods.is_empty() {
                mods.pop();
            }
            if extra_bits == 100 {
                mods.push((BI::one() << 97u32) - BI::one());
            }
            let eb = (-sum(&bp, &lim), sum(&bp, &lim) * BI::from(2) + sum(&bp, &lim) * &lim * BI::from(n));
            let mjb: Vec<_> = mods
                .iter()
                .map(|mj| {
                    let bpj: Vec<BI> = bp.iter().map(|b| b % mj).collect();
                    (-sum(&bpj, &lim), sum(&bpj, &lim) * BI::from(2) + sum(&bpj, &lim) * &lim * BI::from(n))
                })
                .collect();
            auxb_line::<F, K>(ctx, "auxb:near-gate", &mods, eb, &mjb);
        }
    }
    // thresholds of u_max: expression ranges of exactly k·m, k·m ± 1
    let m = modulus::<K>();
    for k in [1u32, 2, 3, 4, 5, 7, 8, 9, 15, 16, 17] {
        for d in [-1i32, 0, 1] {
            let hi = &m * BI::from(k) + BI::from(d);
            let lo = -(&m * BI::from(rng.gen_range(0..3u32))) + BI::from(rng.gen_range(-1..=1i32));
            let mjb: Vec<_> = moduli.iter().map(|mj| (BI::zero(), mj * BI::from(k) + BI::from(d))).collect();
            auxb_line::<F, K>(ctx, "auxb:umax-threshold", &moduli, (lo, hi.abs()), &mjb);
        }
    }
}

pub fn run(ctx: &mut Ctx) {
    let mut names: Vec<&str> = vec![];
    macro_rules! one {
        ($name:expr, $F:ty, $K:ty) => {
            names.push($name);
            set_lines::<$F, $K, MEP>(ctx, $name);
            auxb_near_gate::<$F, $K, MEP>(ctx, $name);
        };
    }
    crate::for_each_set!(one);
    ctx.case("nsets", true, "nsets", &format!("{} {}", names.len(), names.join(" ")));
    let n = if crate::small(ctx) { 60 } else { 300 };
    macro_rules! rnd {
        ($name:expr, $F:ty, $K:ty) => {
            auxb_random::<$F, $K>(ctx, $name, n);
        };
    }
    crate::for_each_set!(rnd);
}
