//! Programs over the REAL `BigUintGadget` (widths 1..2048 bits): limb vectors and size bounds of
//! every result against the Lean model (`MidnightZK.Model.C05.Big`), MockProver verdict, values
//! against num-bigint, and a tamper sweep on the carries / quotients of `normalize` and `div_rem`.
use std::cell::RefCell;

use midnight_circuits::{
    biguint::{AssignedBigUint, BigUintGadget},
    field::decomposition::chip::P2RDecompositionConfig,
    instructions::{AssertionInstructions, AssignmentInstructions, ControlFlowInstructions, EqualityInstructions},
    testing_utils::FromScratch,
    types::{AssignedBit, AssignedByte, InnerValue},
};
use midnight_proofs::{
    circuit::{Layouter, SimpleFloorPlanner, Value},
    dev::{CellValue, MockProver},
    plonk::{Circuit, ConstraintSystem, Error, FloorPlanner},
};
use mzkh::{catch, Ctx};
use num_bigint::{BigUint, RandBigInt};
use num_traits::{One, Zero};
use rand::Rng;
use serde_json::json;

use crate::{
    fieldrun::ofail,
    fop,
    prog::{new_ng, render_prog, Op, NG, NG0},
    rec::Rec,
};

type F = crate::sets::BlsScalar;
type BG = BigUintGadget<F, NG<F>>;

#[derive(Clone, Debug)]
enum Var {
    Big(AssignedBigUint<F>),
    Bit(AssignedBit<F>),
    Bits(Vec<AssignedBit<F>>),
    Bytes(Vec<AssignedByte<F>>),
    Unit,
}

#[derive(Clone, Debug, Default)]
pub struct Outcome {
    pub outs: Vec<String>,
    pub stopped: Option<String>,
    pub values: Vec<Option<BigUint>>,
    pub public: Vec<F>,
    pub error: Option<String>,
}

fn val<T: Clone>(v: Value<T>) -> Option<T> {
    let mut r = None;
    v.map(|x| r = Some(x));
    r
}

fn parse_big(s: &str) -> BigUint {
    if let Some(h) = s.strip_prefix("0x") {
        BigUint::parse_bytes(h.as_bytes(), 16).unwrap()
    } else {
        BigUint::parse_bytes(s.as_bytes(), 10).unwrap()
    }
}

pub struct BigCircuit {
    ops: Vec<Op>,
    pub outcome: RefCell<Outcome>,
}

fn big<'a>(vars: &'a [Var], s: &str) -> &'a AssignedBigUint<F> {
    match &vars[s.parse::<usize>().unwrap()] {
        Var::Big(x) => x,
        other => panic!("big expected, got {other:?}"),
    }
}

fn step(g: &BG, ng: &NG<F>, layouter: &mut impl Layouter<F>, vars: &[Var], o: &Op) -> Result<Var, Error> {
    let a = &o.args;
    Ok(match o.name {
        "in" => Var::Big(g.assign_biguint(layouter, Value::known(parse_big(&a[0])), a[1].parse().unwrap())?),
        "fix" => Var::Big(g.assign_fixed_biguint(layouter, parse_big(&a[0]))?),
        "inbit" => {
            let b: AssignedBit<F> = ng.assign(layouter, Value::known(a[0] == "1"))?;
            Var::Bit(b)
        }
        "inbits" => Var::Bits(
            a[0].chars()
                .filter(|c| *c == '0' || *c == '1')
                .map(|c| ng.assign(layouter, Value::known(c == '1')))
                .collect::<Result<Vec<AssignedBit<F>>, Error>>()?,
        ),
        "inbytes" => {
            let bytes: Vec<u8> = if a[0] == "-" { vec![] } else { a[0].split(',').map(|x| x.parse().unwrap()).collect() };
            Var::Bytes(
                bytes.iter().map(|b| ng.assign(layouter, Value::known(*b))).collect::<Result<Vec<AssignedByte<F>>, Error>>()?,
            )
        }
        "add" => Var::Big(g.add(layouter, big(vars, &a[0]), big(vars, &a[1]))?),
        "sub" => Var::Big(g.sub(layouter, big(vars, &a[0]), big(vars, &a[1]))?),
        "mul" => Var::Big(g.mul(layouter, big(vars, &a[0]), big(vars, &a[1]))?),
        "div" => Var::Big(g.div_rem(layouter, big(vars, &a[0]), big(vars, &a[1]))?.0),
        "rem" => Var::Big(g.div_rem(layouter, big(vars, &a[0]), big(vars, &a[1]))?.1),
        "modexp" => Var::Big(g.mod_exp(layouter, big(vars, &a[0]), a[1].parse().unwrap(), big(vars, &a[2]))?),
        "lt" => Var::Bit(g.lower_than(layouter, big(vars, &a[0]), big(vars, &a[1]))?),
        "eq" => Var::Bit(g.is_equal(layouter, big(vars, &a[0]), big(vars, &a[1]))?),
        "neq" => Var::Bit(g.is_not_equal(layouter, big(vars, &a[0]), big(vars, &a[1]))?),
        "eqc" => Var::Bit(g.is_equal_to_fixed(layouter, big(vars, &a[0]), parse_big(&a[1]))?),
        "asserteq" => {
            g.assert_equal(layouter, big(vars, &a[0]), big(vars, &a[1]))?;
            Var::Unit
        }
        "assertneq" => {
            g.assert_not_equal(layouter, big(vars, &a[0]), big(vars, &a[1]))?;
            Var::Unit
        }
        "asserteqc" => {
            g.assert_equal_to_fixed(layouter, big(vars, &a[0]), parse_big(&a[1]))?;
            Var::Unit
        }
        "select" => match &vars[a[0].parse::<usize>().unwrap()] {
            Var::Bit(b) => Var::Big(g.select(layouter, b, big(vars, &a[1]), big(vars, &a[2]))?),
            _ => panic!("bit expected"),
        },
        "tobits" => Var::Bits(g.to_le_bits(layouter, big(vars, &a[0]))?),
        "tobytes" => Var::Bytes(g.to_le_bytes(layouter, big(vars, &a[0]))?),
        "frombits" => match &vars[a[0].parse::<usize>().unwrap()] {
            Var::Bits(b) => Var::Big(g.from_le_bits(layouter, b)?),
            _ => panic!("bits expected"),
        },
        "frombytes" => match &vars[a[0].parse::<usize>().unwrap()] {
            Var::Bytes(b) => Var::Big(g.from_le_bytes(layouter, b)?),
            _ => panic!("bytes expected"),
        },
        "pi" => {
            g.constrain_as_public_input(layouter, big(vars, &a[0]), a[1].parse().unwrap())?;
            Var::Unit
        }
        other => panic!("unknown op {other}"),
    })
}

fn render(v: &Var) -> (String, Option<BigUint>) {
    match v {
        Var::Big(x) => {
            let limbs: Vec<BigUint> = x
                .verif_limbs()
                .iter()
                .map(|l| val(l.value().copied()).map(|f| midnight_circuits::CircuitField::to_biguint(&f)).unwrap_or_default())
                .collect();
            (format!("G<{};{}>", mzkh::join(&limbs), mzkh::join(&x.verif_limb_size_bounds())), val(x.value()))
        }
        Var::Bit(b) => {
            let bv = val(b.value()).unwrap_or(false);
            (format!("b{}", bv as u8), Some(BigUint::from(bv as u8)))
        }
        Var::Bits(bs) => {
            let v: Vec<bool> = bs.iter().map(|b| val(b.value()).unwrap_or(false)).collect();
            let mut acc = BigUint::zero();
            for (i, b) in v.iter().enumerate() {
                if *b {
                    acc += BigUint::one() << i;
                }
            }
            (format!("B<{}>", v.iter().map(|b| if *b { '1' } else { '0' }).collect::<String>()), Some(acc))
        }
        Var::Bytes(bs) => {
            let v: Vec<u8> = bs.iter().map(|b| val(b.value()).unwrap_or(0)).collect();
            (format!("Y<{}>", mzkh::join(&v)), Some(BigUint::from_bytes_le(&v)))
        }
        Var::Unit => ("U".into(), None),
    }
}

impl Circuit<F> for BigCircuit {
    type Config = P2RDecompositionConfig;
    type FloorPlanner = SimpleFloorPlanner;
    type Params = ();

    fn without_witnesses(&self) -> Self {
        unreachable!()
    }

    fn configure(meta: &mut ConstraintSystem<F>) -> Self::Config {
        let committed_instance_column = meta.instance_column();
        let instance_column = meta.instance_column();
        let constants_column = meta.fixed_column();
        meta.enable_constant(constants_column);
        NG0::<F>::configure_from_scratch(meta, &[committed_instance_column, instance_column])
    }

    fn synthesize(&self, config: Self::Config, mut layouter: impl Layouter<F>) -> Result<(), Error> {
        let (ng, ng0) = new_ng::<F>(&config);
        let g = BG::new(&ng);
        crate::trace::reset();
        let mut vars: Vec<Var> = vec![];
        let mut out = Outcome::default();
        for (oi, o) in self.ops.iter().enumerate() {
            crate::trace::set_op(oi);
            match catch(|| step(&g, &ng, &mut layouter, &vars, o)) {
                Err(p) => {
                    out.stopped = Some("P".into());
                    out.error = Some(p);
                    break;
                }
                Ok(Err(e)) => {
                    out.stopped = Some("E".into());
                    out.error = Some(format!("{e:?}"));
                    break;
                }
                Ok(Ok(v)) => {
                    let (s, value) = render(&v);
                    out.outs.push(s);
                    out.values.push(value);
                    vars.push(v);
                }
            }
        }
        let stopped = out.stopped.is_some();
        *self.outcome.borrow_mut() = out;
        if stopped {
            return Err(Error::Synthesis("program stopped".into()));
        }
        crate::trace::set_op(self.ops.len());
        ng0.load_from_scratch(&mut layouter)
    }
}

pub struct Reference {
    pub vals: Vec<Option<BigUint>>,
    pub sat: bool,
    pub public: Vec<F>,
}

/// num-bigint reference semantics.
pub fn reference(ops: &[Op]) -> Reference {
    let mut vals: Vec<Option<BigUint>> = vec![];
    let mut sat = true;
    let mut public = vec![];
    let g = |vals: &Vec<Option<BigUint>>, s: &str| vals[s.parse::<usize>().unwrap()].clone().unwrap();
    for o in ops {
        let a = &o.args;
        let v = match o.name {
            "in" => {
                let v = parse_big(&a[0]);
                if v.bits() > a[1].parse::<u64>().unwrap() {
                    sat = false;
                }
                Some(v)
            }
            "fix" => Some(parse_big(&a[0])),
            "inbit" => Some(BigUint::from((a[0] == "1") as u8)),
            "inbits" => {
                let mut acc = BigUint::zero();
                for (i, c) in a[0].chars().filter(|c| *c == '0' || *c == '1').enumerate() {
                    if c == '1' {
                        acc += BigUint::one() << i;
                    }
                }
                Some(acc)
            }
            "inbytes" => Some(if a[0] == "-" {
                BigUint::zero()
            } else {
                BigUint::from_bytes_le(&a[0].split(',').map(|x| x.parse::<u8>().unwrap()).collect::<Vec<_>>())
            }),
            "add" => Some(g(&vals, &a[0]) + g(&vals, &a[1])),
            "sub" => {
                let (x, y) = (g(&vals, &a[0]), g(&vals, &a[1]));
                if x < y {
                    sat = false;
                    Some(BigUint::zero())
                } else {
                    Some(x - y)
                }
            }
            "mul" => Some(g(&vals, &a[0]) * g(&vals, &a[1])),
            "div" | "rem" => {
                let (x, y) = (g(&vals, &a[0]), g(&vals, &a[1]));
                if y.is_zero() {
                    sat = false;
                    Some(BigUint::zero())
                } else {
                    let (q, r) = (&x / &y, &x % &y);
                    Some(if o.name == "div" { q } else { r })
                }
            }
            "modexp" => {
                let (x, m) = (g(&vals, &a[0]), g(&vals, &a[2]));
                if m.is_zero() {
                    sat = false;
                    Some(BigUint::zero())
                } else {
                    Some(x.modpow(&BigUint::from(a[1].parse::<u64>().unwrap()), &m))
                }
            }
            "lt" => Some(BigUint::from((g(&vals, &a[0]) < g(&vals, &a[1])) as u8)),
            "eq" => Some(BigUint::from((g(&vals, &a[0]) == g(&vals, &a[1])) as u8)),
            "neq" => Some(BigUint::from((g(&vals, &a[0]) != g(&vals, &a[1])) as u8)),
            "eqc" => Some(BigUint::from((g(&vals, &a[0]) == parse_big(&a[1])) as u8)),
            "asserteq" => {
                sat &= g(&vals, &a[0]) == g(&vals, &a[1]);
                None
            }
            "assertneq" => {
                sat &= g(&vals, &a[0]) != g(&vals, &a[1]);
                None
            }
            "asserteqc" => {
                sat &= g(&vals, &a[0]) == parse_big(&a[1]);
                None
            }
            "select" => Some(if g(&vals, &a[0]).is_one() { g(&vals, &a[1]) } else { g(&vals, &a[2]) }),
            "tobits" | "tobytes" | "frombits" | "frombytes" => Some(g(&vals, &a[0])),
            "pi" => {
                let nb: u32 = a[1].parse().unwrap();
                public.extend(AssignedBigUint::<F>::as_public_input(&g(&vals, &a[0]), nb));
                None
            }
            other => panic!("ref: {other}"),
        };
        vals.push(v);
    }
    Reference { vals, sat, public }
}

pub struct MockRun {
    pub verdict: Result<bool, String>,
    pub outcome: Outcome,
    pub prover: Option<MockProver<F>>,
}

pub fn mock(ops: &[Op], public: &[F]) -> MockRun {
    let mut k = 11;
    loop {
        let circuit = BigCircuit { ops: ops.to_vec(), outcome: RefCell::new(Outcome::default()) };
        let r = catch(|| MockProver::run(k, &circuit, vec![vec![], public.to_vec()]));
        let outcome = circuit.outcome.borrow().clone();
        match r {
            Err(p) if p.contains("usable_rows") && k < 19 => {
                k += 1;
                continue;
            }
            Err(p) => return MockRun { verdict: Err(format!("panic: {p}")), outcome, prover: None },
            Ok(Err(e)) => {
                let msg = format!("{e:?} {}", outcome.error.clone().unwrap_or_default());
                if (msg.contains("NotEnoughRows") || msg.contains("usable_rows")) && k < 19 {
                    k += 1;
                    continue;
                }
                if outcome.stopped.is_some() {
                    return MockRun { verdict: Err("stopped".into()), outcome, prover: None };
                }
                return MockRun { verdict: Err(format!("error: {msg}")), outcome, prover: None };
            }
            Ok(Ok(prover)) => {
                if outcome.stopped.is_some() {
                    return MockRun { verdict: Err("stopped".into()), outcome, prover: None };
                }
                return match catch(|| prover.verify().is_ok()) {
                    Ok(b) => MockRun { verdict: Ok(b), outcome, prover: Some(prover) },
                    Err(p) => MockRun { verdict: Err(format!("verify panic: {p}")), outcome, prover: None },
                };
            }
        }
    }
}

fn record(ops: &[Op]) -> Option<Rec<F>> {
    let circuit = BigCircuit { ops: ops.to_vec(), outcome: RefCell::new(Outcome::default()) };
    catch(|| {
        let mut cs = ConstraintSystem::<F>::default();
        let config = BigCircuit::configure(&mut cs);
        let mut rec = Rec::<F>::default();
        let constants = cs.constants().clone();
        SimpleFloorPlanner::synthesize(&mut rec, &circuit, config, constants).ok().map(|_| rec)
    })
    .ok()
    .flatten()
}

/// Per executed operation of a BigUint program, the calls of the real decomposition chip
/// (`trace::LogDecomp`) in emission order: `A<k>` assign_less_than_pow2(·, k), `C<k>`
/// assert_less_than_pow2(·, k), `D<k>/<s>` decompose_fixed_limb_size(·, k, s), `S<k>`
/// assign_many_small(·, k); `-` when the operation calls none; `P` / `E` when the program stops.
pub fn big_trace(ops: &[Op]) -> Vec<String> {
    let circuit = BigCircuit { ops: ops.to_vec(), outcome: RefCell::new(Outcome::default()) };
    let _ = catch(|| {
        let mut cs = ConstraintSystem::<F>::default();
        let config = BigCircuit::configure(&mut cs);
        let mut rec = Rec::<F>::default();
        let constants = cs.constants().clone();
        let _ = SimpleFloorPlanner::synthesize(&mut rec, &circuit, config, constants);
    });
    let events = crate::trace::take_events();
    let outcome = circuit.outcome.borrow().clone();
    let done = outcome.outs.len();
    let mut per_op: Vec<Vec<String>> = vec![vec![]; done];
    for e in &events {
        if e.op < done {
            per_op[e.op].push(match e.kind {
                'D' => format!("D{}/{}", e.bits, e.limb_size),
                k => format!("{k}{}", e.bits),
            });
        }
    }
    let mut v: Vec<String> = per_op.into_iter().map(|t| if t.is_empty() { "-".to_string() } else { t.join(",") }).collect();
    if let Some(st) = &outcome.stopped {
        v.push(st.clone());
    }
    if v.is_empty() {
        v.push("-".into());
    }
    v
}

fn hex(b: &BigUint) -> String {
    format!("0x{}", b.to_str_radix(16))
}

pub struct Case {
    pub kind: String,
    pub ops: Vec<Op>,
}

/// Boundary values of a given width: 0, 1, 2^w - 1, 2^(w-1), all-ones limbs, near 2^96, random.
fn values(w: u32, rng: &mut rand_chacha::ChaCha8Rng) -> Vec<BigUint> {
    let one = BigUint::one();
    let top = (BigUint::one() << w) - &one;
    let mut v = vec![BigUint::zero(), one.clone(), top.clone(), BigUint::one() << (w - 1), rng.gen_biguint(w as u64)];
    if w > 96 {
        v.push((BigUint::one() << 96u32) - &one);
        v.push(BigUint::one() << 96u32);
        v.push(((BigUint::one() << 96u32) + &one) % (&top + &one));
    }
    if w > 2 {
        v.push(&top - &one);
    }
    v
}

/// `nb_bits()` of `add(in(w), fix(a))` (the bound the caller of `constrain_as_public_input`
/// must know): limb-wise `bound_of_addition`, then all-96 limbs if a bound exceeds 96.
fn sum_bits(w: u32, a: &BigUint) -> u32 {
    let sb = |nb: u32| -> Vec<u32> {
        let n = nb.max(1).div_ceil(96) as usize;
        let mut v = vec![96; n];
        v[n - 1] = (nb - 1) % 96 + 1;
        v
    };
    let (x, y) = (sb(w), sb((a.bits() as u32).max(1)));
    let n = x.len().max(y.len());
    let mut z = vec![];
    for i in 0..n {
        let (b1, b2) = (x.get(i).copied(), y.get(i).copied());
        z.push(match (b1, b2) {
            (Some(0), Some(b)) | (Some(b), Some(0)) => b,
            (Some(b1), Some(b2)) => 1 + b1.max(b2),
            (Some(b), None) | (None, Some(b)) => b,
            _ => 0,
        });
    }
    let maxv = z.iter().rev().fold(BigUint::zero(), |acc, b| (acc << 96u32) + (BigUint::one() << *b) - BigUint::one());
    let nb = maxv.bits() as u32;
    if z.iter().all(|b| *b <= 96) {
        nb
    } else {
        96 * nb.div_ceil(96)
    }
}

pub fn gen_cases(ctx: &Ctx) -> Vec<Case> {
    let mut rng = ctx.rng(if ctx.search() { "big:search" } else { "big" });
    let quick = crate::small(ctx);
    let mut cases = vec![];
    let mut push = |kind: &str, ops: Vec<Op>| cases.push(Case { kind: kind.into(), ops });
    let widths: Vec<u32> = if quick {
        vec![1, 2, 8, 95, 96, 97, 192, 193, 256, 1024, 2048]
    } else {
        (1..=9).chain([31, 32, 33, 64, 95, 96, 97, 128, 191, 192, 193, 256, 288, 289, 384, 512, 1023, 1024, 1025, 1536, 2047, 2048]).collect()
    };
    for &w in &widths {
        let vs = values(w, &mut rng);
        for (i, a) in vs.iter().enumerate() {
            for (j, b) in vs.iter().enumerate() {
                if (quick && (i + 2 * j) % 4 != 0) || (!quick && (i + j) % 2 != 0) || (!quick && w > 512 && (i + j) % 4 != 0) {
                    continue;
                }
                let w2 = if (i + j) % 2 == 0 { w } else { (w / 2).max(1) };
                let b = b % (BigUint::one() << w2);
                push(
                    "arith",
                    vec![
                        fop!("in", hex(a), w),
                        fop!("in", hex(&b), w2),
                        fop!("add", 0, 1),
                        fop!("mul", 0, 1),
                        fop!("lt", 0, 1),
                        fop!("eq", 0, 1),
                        fop!("neq", 0, 1),
                    ],
                );
                push("sub", vec![fop!("in", hex(a), w), fop!("in", hex(&b), w2), fop!("sub", 0, 1)]);
                if w <= 1024 || (i + j) % 4 == 0 {
                    push("divrem", vec![fop!("in", hex(a), w), fop!("in", hex(&b), w2), fop!("div", 0, 1), fop!("rem", 0, 1)]);
                }
            }
            // conversions, public input, fixed
            if !quick || i % 2 == 0 {
                push(
                    "conv",
                    vec![
                        fop!("in", hex(a), w),
                        fop!("tobits", 0),
                        fop!("frombits", 1),
                        fop!("asserteq", 0, 2),
                        fop!("tobytes", 0),
                        fop!("frombytes", 4),
                        fop!("asserteq", 0, 5),
                        fop!("eqc", 0, hex(a)),
                        fop!("asserteqc", 2, hex(a)),
                    ],
                );
                push("pi", vec![fop!("in", hex(a), w), fop!("pi", 0, w), fop!("fix", hex(a)), fop!("add", 0, 2), fop!("pi", 3, sum_bits(w, a))]);
                push("pi-wrong-bits", vec![fop!("in", hex(a), w), fop!("pi", 0, w + 1)]);
                push("select", vec![fop!("in", hex(a), w), fop!("fix", hex(&vs[(i + 1) % vs.len()])), fop!("inbit", i % 2), fop!("select", 2, 0, 1), fop!("mul", 3, 3)]);
                push("assert-wrong", vec![fop!("in", hex(a), w), fop!("fix", hex(&(a + BigUint::one()))), fop!("asserteq", 0, 1)]);
                push("assertneq", vec![fop!("in", hex(a), w), fop!("fix", hex(&(a + BigUint::one()))), fop!("assertneq", 0, 1), fop!("assertneq", 0, 0)]);
            }
        }
        // modular exponentiation
        if w <= 512 || !quick {
            let m = rng.gen_biguint(w as u64) | BigUint::one();
            let x = rng.gen_biguint(w as u64);
            for n in if quick { vec![0u64, 1, 2, 3, 5] } else { vec![0u64, 1, 2, 3, 4, 5, 7, 8, 16, 17, 65537] } {
                if w > 600 && n > 5 {
                    continue;
                }
                push("modexp", vec![fop!("in", hex(&x), w), fop!("in", hex(&m), w), fop!("modexp", 0, n, 1)]);
            }
            push("modexp-zero-mod", vec![fop!("in", hex(&x), w), fop!("in", "0x0", w), fop!("modexp", 0, 3, 1)]);
        }
        // value exceeding its declared width
        push("in-too-wide", vec![fop!("in", hex(&(BigUint::one() << w)), w)]);
    }
    // width-asymmetric operand pairs (limb counts 1 vs 2, 2 vs 3, 1 vs 11), both orders, through
    // EVERY binary operation (the two `extend` branches of `add`, `resize` inside assert_equal /
    // is_equal / geq / select, the row/column roles in `mul`, q/r widths in `div_rem`)
    for &(wa, wb) in &[(96u32, 97u32), (90, 192), (192, 193), (150, 288), (96, 1056), (1, 1000)] {
        for t in 0..(if quick { 2 } else { 4 }) {
            let (a, b) = match t {
                0 => ((BigUint::one() << wa) - BigUint::one(), (BigUint::one() << wb) - BigUint::one()),
                1 => (rng.gen_biguint(wa as u64), (BigUint::one() << (wb - 1)) + rng.gen_biguint(wb as u64 - 1)),
                2 => (BigUint::one(), BigUint::one() << (wb - 1)),
                _ => (rng.gen_biguint(wa as u64), rng.gen_biguint(wb as u64)),
            };
            for swap in [false, true] {
                let (x, wx, y, wy) = if swap { (&b, wb, &a, wa) } else { (&a, wa, &b, wb) };
                let mut ops = vec![
                    fop!("in", hex(x), wx),
                    fop!("in", hex(y), wy),
                    fop!("add", 0, 1),
                    fop!("mul", 0, 1),
                    fop!("lt", 0, 1),
                    fop!("eq", 0, 1),
                    fop!("neq", 0, 1),
                    fop!("inbit", (t % 2)),
                    fop!("select", 7, 0, 1),
                    fop!("assertneq", 0, 1),
                    fop!("sub", 2, 1),    // (x + y) - y, operands of 2..12 vs 1..11 limbs
                    fop!("asserteq", 10, 0),
                    fop!("sub", 2, 0),    // (x + y) - x
                    fop!("asserteq", 1, 12),
                ];
                if wa.max(wb) <= 300 || t == 0 {
                    ops.push(fop!("div", 0, 1));
                    ops.push(fop!("rem", 0, 1));
                    ops.push(fop!("rem", 3, 0));
                }
                // the selected number is used afterwards (under-approximated size bounds of the
                // result make the honest witness of these fail)
                ops.push(fop!("mul", 8, 8));
                ops.push(fop!("add", 8, 8));
                push("asym", ops);
                push("asym-sub", vec![fop!("in", hex(x), wx), fop!("in", hex(y), wy), fop!("sub", 0, 1)]);
                if wa.max(wb) <= 300 && t < 2 {
                    push("asym-modexp", vec![fop!("in", hex(x), wx), fop!("in", hex(&(y | &BigUint::one())), wy), fop!("modexp", 0, 3, 1), fop!("modexp", 1, 2, 0)]);
                }
            }
        }
    }
    // chains: repeated additions / products without explicit normalisation requests
    for &w in &[64u32, 96, 200, 700] {
        let mut ops = vec![fop!("in", hex(&((BigUint::one() << w) - BigUint::one())), w)];
        for t in 0..10 {
            ops.push(fop!("add", t, t));
        }
        ops.push(fop!("mul", 10, 10));
        ops.push(fop!("rem", 11, 0));
        ops.push(fop!("sub", 11, 10));
        push("chain", ops);
    }
    // random programs
    for _ in 0..(if quick { 10 } else { 40 }) {
        let w = rng.gen_range(1..600u32);
        let mut ops = vec![];
        let mut n = 0;
        for _ in 0..rng.gen_range(2..4) {
            let ww = rng.gen_range(1..=w);
            ops.push(fop!("in", hex(&rng.gen_biguint(ww as u64)), ww));
            n += 1;
        }
        for _ in 0..rng.gen_range(2..8) {
            let a = rng.gen_range(0..n);
            let b = rng.gen_range(0..n);
            ops.push(match rng.gen_range(0..6) {
                0 | 1 => fop!("add", a, b),
                2 => fop!("mul", a, b),
                3 => fop!("rem", a, b),
                4 => fop!("div", a, b),
                _ => fop!("sub", a, b),
            });
            n += 1;
        }
        push("random", ops);
    }
    cases
}

fn is_target_region(name: &str) -> bool {
    // regions of the native gadget used by normalize / div_rem carry no foreign-specific name;
    // every advice cell of a BigUint program belongs to the big-integer emulation
    !name.is_empty()
}

/// Tamper sweep on a BigUint program: every advice cell × fault values; a change must be
/// rejected unless the cell is one of the native gadget's free hint cells.
fn tamper(ctx: &mut Ctx, case: &Case, public: &[F], max_cells: usize) {
    let run = mock(&case.ops, public);
    let Some(mut prover) = run.prover else { return };
    if run.verdict != Ok(true) {
        return;
    }
    let Some(rec) = record(&case.ops) else { return };
    let mut rng = ctx.rng(&format!("bigtamper:{}", render_prog(&case.ops)));
    let base = mzkh::fe_from_big::<F>(&(BigUint::one() << 96u32));
    let faults: Vec<(&str, Box<dyn Fn(F) -> F>)> = vec![
        ("+1", Box::new(|x| x + F::from(1))),
        ("-1", Box::new(|x| x - F::from(1))),
        ("+base", Box::new(move |x| x + base)),
        ("-base", Box::new(move |x| x - base)),
    ];
    let mut idx: Vec<usize> = (0..rec.cells.len()).filter(|i| is_target_region(&rec.regions[rec.cells[*i].region].name)).collect();
    while idx.len() > max_cells {
        let i = rng.gen_range(0..idx.len());
        idx.swap_remove(i);
    }
    for ci in idx {
        let c = &rec.cells[ci];
        let rname = rec.regions[c.region].name.clone();
        for (fname, f) in faults.iter() {
            let old = prover.advice()[c.col][c.row];
            let CellValue::Assigned(ov) = old else { continue };
            let nv = f(ov);
            prover.verif_advice_mut()[c.col][c.row] = CellValue::Assigned(nv);
            let ok = catch(|| prover.verify().is_ok()).unwrap_or(false);
            prover.verif_advice_mut()[c.col][c.row] = old;
            ctx.count(&format!("bigtamper:{}:{}", rname, if ok { "ACCEPTED" } else { "rejected" }));
            let _ = fname;
        }
    }
}

pub fn run(ctx: &mut Ctx) {
    let cases = gen_cases(ctx);
    let mut tampered = std::collections::BTreeMap::<String, usize>::new();
    for case in &cases {
        let prog = render_prog(&case.ops);
        let r = reference(&case.ops);
        let run = mock(&case.ops, &r.public);
        let verdict = match &run.verdict {
            Ok(true) => "sat",
            Ok(false) => "unsat",
            Err(e) if e == "stopped" => "stopped",
            Err(_) => "fail",
        };
        let mut outs = run.outcome.outs.clone();
        if let Some(s) = &run.outcome.stopped {
            outs.push(s.clone());
        }
        ctx.case(&format!("big:{}", case.kind), true, &format!("big ; {prog}"), &format!("{} => {}", outs.join(" | "), verdict));
        ctx.count(&format!("big-verdict:{verdict}"));
        // range checks as emitted by EVERY operation (assign_bounded of `in` and of the internal
        // witnesses of sub / div_rem, the carries and limbs of every `normalize`, the comparisons of
        // `geq`, the decompositions of the bit / byte conversions): per executed operation, the calls
        // of the real decomposition chip in order, with the bit length enforced
        {
            let t = big_trace(&case.ops);
            ctx.case("bigrc", true, &format!("bigrc ; {prog}"), &t.join(" | "));
        }
        let structural_reject = matches!(case.kind.as_str(), "pi-wrong-bits" | "in-too-wide");
        if r.sat && !structural_reject {
            if verdict != "sat" {
                ofail(
                    ctx,
                    &format!("big-honest-rejected:{}", case.kind),
                    "a BigUint operation with admissible operands is not satisfied by the honest witness",
                    json!({"program": prog, "verdict": format!("{:?}", run.verdict)}),
                );
            } else {
                for (i, v) in r.vals.iter().enumerate() {
                    if let (Some(e), Some(Some(g))) = (v, run.outcome.values.get(i)) {
                        if e != g {
                            ofail(
                                ctx,
                                &format!("big-wrong-value:{prog}"),
                                "a BigUint operation returns a value different from num-bigint arithmetic",
                                json!({"program": prog, "op": i, "got": g.to_string(), "expected": e.to_string()}),
                            );
                            break;
                        }
                    }
                }
            }
        } else if verdict == "sat" {
            ofail(
                ctx,
                &format!("big-unsat-accepted:{prog}"),
                "a BigUint program that must be unsatisfiable (x < y in sub, division by zero, false assertion, value wider than declared) is satisfied",
                json!({"program": prog}),
            );
        }
        // wrong public input must be rejected
        if verdict == "sat" && !r.public.is_empty() && case.kind == "pi" {
            let mut p = r.public.clone();
            let last = p.len() - 1;
            p[last] += F::from(1);
            ctx.count("big-wrong-public");
            if mock(&case.ops, &p).verdict == Ok(true) {
                ofail(ctx, &format!("big-wrong-public-accepted:{prog}"), "a wrong public input of an exposed BigUint is accepted", json!({"program": prog}));
            }
        }
        if verdict == "sat" && matches!(case.kind.as_str(), "arith" | "divrem" | "sub" | "modexp") {
            let e = tampered.entry(case.kind.clone()).or_insert(0);
            if *e < if crate::small(ctx) { 1 } else { 2 } {
                *e += 1;
                tamper(ctx, case, &r.public, if crate::small(ctx) { 40 } else { 120 });
            }
        }
    }
}

/// `C05_BIG="<program>" h-c05`: run one BigUint program (replay / debugging).
pub fn single(prog: &str) {
    let ops: Vec<Op> = prog
        .split(" ; ")
        .map(|t| {
            let mut w = t.split_whitespace();
            let name: &'static str = Box::leak(w.next().unwrap().to_string().into_boxed_str());
            Op { name, args: w.map(|x| x.to_string()).collect() }
        })
        .collect();
    let r = reference(&ops);
    let run = mock(&ops, &r.public);
    println!("reference sat: {}", r.sat);
    println!("verdict: {:?}", run.verdict);
    for (i, o) in run.outcome.outs.iter().enumerate() {
        println!("  op {i} [{} {}] -> {o}", ops[i].name, ops[i].args.join(" "));
    }
    println!("stopped: {:?} {:?}", run.outcome.stopped, run.outcome.error);
    for (i, t) in big_trace(&ops).iter().enumerate() {
        println!("  trace {i}: {t}");
    }
}
