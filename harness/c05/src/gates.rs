//! The two custom gates of the foreign-field chip:
//! * `geval`: the REAL gate polynomials (from the constraint system built by the real
//!   `configure`) evaluated at random cell values, against the Lean model's identities
//!   (equality at random points of a 255-bit field = equality of polynomials, Schwartz-Zippel);
//! * `mulrow` / `normrow`: the rows the real `assert_mul` / `normalize` assign in an honest run,
//!   against the Lean model's witness generation (`compute_u`, `compute_vj`, output limbs).
use ff::FromUniformBytes;
use midnight_circuits::{field::foreign::params::FieldEmulationParams, CircuitField};
use midnight_proofs::plonk::{Circuit, ConstraintSystem, Expression};
use mzkh::Ctx;
use num_bigint::{BigInt as BI, BigUint, RandBigInt, ToBigInt};
use rand::Rng;
use std::collections::HashMap;

use crate::{
    prog::{Op, ProgCircuit},
    rec::Rec,
    sets::MEP,
};

fn eval_at<F: CircuitField>(e: &Expression<F>, adv: &HashMap<(usize, i32), F>) -> F {
    e.evaluate(
        &|c| c,
        &|_| F::ONE,
        &|_| panic!("fixed query in a foreign gate"),
        &|q| *adv.get(&(q.column_index(), q.rotation().0)).expect("unexpected advice query"),
        &|_| panic!("instance query in a foreign gate"),
        &|_| panic!("challenge in a foreign gate"),
        &|a| -a,
        &|a, b| a + b,
        &|a, b| a * b,
        &|a, c| a * c,
    )
}

fn big<F: CircuitField>(f: &F) -> BigUint {
    f.to_biguint()
}

pub fn geval<F, K>(ctx: &mut Ctx, name: &str, reps: usize)
where
    F: CircuitField + FromUniformBytes<64> + Ord,
    K: CircuitField,
    MEP: FieldEmulationParams<F, K>,
{
    let mut cs = ConstraintSystem::<F>::default();
    let config = ProgCircuit::<F, K>::configure(&mut cs);
    let (xc, zc) = config.field_cols();
    let n = xc.len();
    let nv = <MEP as FieldEmulationParams<F, K>>::moduli().len();
    let mut rng = ctx.rng(&format!("geval:{name}"));
    let p = F::modulus();
    let base = BigUint::from(1u8) << <MEP as FieldEmulationParams<F, K>>::LOG2_BASE;
    for gate in cs.gates() {
        let which = match gate.name() {
            "Foreign-field multiplication" => "mul",
            "Foreign-field normalization" => "norm",
            _ => continue,
        };
        for rep in 0..reps {
            // cell values: full-size random field elements, or limb-sized values
            let mut cell = |small: bool| -> F {
                let v = if small { rng.gen_biguint_below(&base) } else { rng.gen_biguint_below(&p) };
                mzkh::fe_from_big::<F>(&v)
            };
            let small = rep % 2 == 1;
            let xs: Vec<F> = (0..n).map(|_| cell(small)).collect();
            let ys: Vec<F> = (0..n).map(|_| cell(small)).collect();
            let zs: Vec<F> = (0..n).map(|_| cell(small)).collect();
            let u = cell(false);
            let vs: Vec<F> = (0..n - 1).map(|_| cell(false)).collect();
            let mut adv: HashMap<(usize, i32), F> = HashMap::new();
            for i in 0..n {
                adv.insert((xc[i], 0), xs[i]);
                adv.insert((xc[i], 1), ys[i]);
                adv.insert((zc[i], 0), zs[i]);
            }
            adv.insert((zc[0], 1), u);
            for j in 0..n - 1 {
                adv.insert((zc[1 + j], 1), vs[j]);
            }
            let vals: Vec<String> =
                gate.polynomials().iter().map(|e| big(&eval_at(e, &adv)).to_string()).collect();
            let l = |v: &[F]| mzkh::join(&v.iter().map(|f| big(f).to_string()).collect::<Vec<_>>());
            let op = if which == "mul" {
                format!("geval {name} mul {} {} {} {} {}", l(&xs), l(&ys), l(&zs), big(&u), l(&vs[..nv.min(n - 1)]))
            } else {
                format!("geval {name} norm {} {} {} {}", l(&xs), l(&zs), big(&u), l(&vs[..nv.min(n - 1)]))
            };
            ctx.case(&format!("geval:{which}"), true, &op, &mzkh::join(&vals));
        }
        let _ = rng.gen::<u8>();
    }
}

/// Centered integer a cell stands for (limbs of un-normalised elements may be negative).
fn centered<F: CircuitField>(f: &F) -> BI {
    let v = f.to_biguint();
    let p = F::modulus();
    if v > (&p >> 1) {
        v.to_bigint().unwrap() - p.to_bigint().unwrap()
    } else {
        v.to_bigint().unwrap()
    }
}

/// Rows of the mul / norm regions of one honest, accepted run.
pub fn rows<F, K>(ctx: &mut Ctx, name: &str, rec: &Rec<F>, limit: usize)
where
    F: CircuitField + FromUniformBytes<64> + Ord,
    K: CircuitField,
    MEP: FieldEmulationParams<F, K>,
{
    let mut cs = ConstraintSystem::<F>::default();
    let config = ProgCircuit::<F, K>::configure(&mut cs);
    let (xc, zc) = config.field_cols();
    let n = xc.len();
    let mut table: HashMap<(usize, usize), F> = HashMap::new();
    for c in &rec.cells {
        if let Some(v) = c.val {
            table.insert((c.col, c.row), v);
        }
    }
    let get = |col: usize, row: usize| -> Option<F> { table.get(&(col, row)).copied() };
    let mut done = 0;
    for (ri, r) in rec.regions.iter().enumerate() {
        if done >= limit {
            break;
        }
        // range checks issued right after the region: one "decompose core" region per
        // `assert_lower_than_fixed` call (interleaved with "copy" regions)
        let rc = rec.regions[ri + 1..]
            .iter()
            .take_while(|q| q.name == "decompose core" || q.name == "copy")
            .filter(|q| q.name == "decompose core")
            .count();
        let ncells = rec.cells.iter().filter(|c| c.region == ri).count();
        let Some(row0) = r.first_row else { continue };
        let is_mul = r.name == "Foreign multiplication";
        if !is_mul && r.name != "Foreign norm" {
            continue;
        }
        let xs: Vec<BI> = (0..n).filter_map(|i| get(xc[i], row0)).map(|f| centered(&f)).collect();
        let zs: Vec<BI> = (0..n).filter_map(|i| get(zc[i], row0)).map(|f| centered(&f)).collect();
        let u = get(zc[0], row0 + 1).map(|f| centered(&f));
        let vs: Vec<BI> = (1..n).filter_map(|j| get(zc[j], row0 + 1)).map(|f| centered(&f)).collect();
        if xs.len() != n || zs.len() != n || u.is_none() {
            continue;
        }
        if is_mul {
            let ys: Vec<BI> = (0..n).filter_map(|i| get(xc[i], row0 + 1)).map(|f| centered(&f)).collect();
            ctx.case(
                "mulrow",
                true,
                &format!("mulrow {name} {} {} {}", mzkh::join(&xs), mzkh::join(&ys), mzkh::join(&zs)),
                &format!("{} {} ok cells={ncells} rc={rc}", u.unwrap(), mzkh::join(&vs)),
            );
        } else {
            ctx.case(
                "normrow",
                true,
                &format!("normrow {name} {}", mzkh::join(&xs)),
                &format!("{} {} {} ok cells={ncells} rc={rc}", mzkh::join(&zs), u.unwrap(), mzkh::join(&vs)),
            );
        }
        done += 1;
    }
}

pub fn _ops(_: &[Op]) {}
