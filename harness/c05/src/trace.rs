//! Read-back of the range checks and of the wiring of the foreign-field chip.
//!
//! * `LogDecomp`: a transparent wrapper of the real `P2RDecompositionChip` (the
//!   `CoreDecompositionInstructions` the `NativeGadget` is generic over) that logs every
//!   `assign_less_than_pow2` / `assert_less_than_pow2` / `decompose_fixed_limb_size` call with
//!   the bit length it was asked to enforce and the cell concerned. Every range check of the
//!   foreign-field chip and of the BigUint gadget (`assign_lower_than_fixed` /
//!   `assert_lower_than_fixed` of the native gadget) ends in one of these calls, behind the native
//!   gadget's own cache of already-constrained cells — so what is logged is the bound that is
//!   really enforced on the cell.
//! * `field_trace`: for one recorded synthesis of a field-chip program, the per-operation list of
//!   foreign-level events, in emission order:
//!   `A<r>[k0,..]`      the r-th group of NB_LIMBS freshly assigned, range-checked limbs
//!                      (`assign`, `assign_mul`) with the bit length of every limb;
//!   `N<r>[x:..;z:..;u:k;v:..]`  the r-th "Foreign norm" region: source of every copied-in input
//!                      limb, bit lengths enforced on the output limbs, on `u` and on every `vj`;
//!   `M<r>[x:..;y:..;z:..;u:k;v:..]` the r-th "Foreign multiplication" region likewise;
//!   `E[a=b,..]`        equality constraints between two named cells (`assert_equal`);
//!   `P[..]`            named cells bound to the instance column (public-input exposure);
//!   `D[name:bits/size,..]` native decompositions of named cells (bit / chunk conversions).
//!   Cell names: `a<r>.<i>` limb i of assign group r, `n<r>.<i>` output limb i of norm region r,
//!   `K<v>` a fixed cell holding v, `L(c1*s1+c2*s2;k)` the result cell of a one-row native
//!   "Linear combination" region resolved to its DEFINING ROW (signed coefficient and depth-0 name
//!   of the cell copied into every term slot, sorted; the constant), `o` any other
//!   (native-computed) cell, `!` no copy constraint.
use std::cell::{Cell as StdCell, RefCell};
use std::collections::HashMap;

use midnight_circuits::{
    field::decomposition::{chip::P2RDecompositionChip, instructions::CoreDecompositionInstructions},
    types::AssignedNative,
    CircuitField,
};
use midnight_proofs::{
    circuit::{Layouter, Value},
    plonk::{Any, Column, Error},
};

use crate::rec::{ColKey, Rec};

/// One logged call of the core decomposition chip.
#[derive(Clone, Debug)]
pub struct Ev {
    /// index of the program operation during which the call was made
    pub op: usize,
    /// `A` assign_less_than_pow2, `C` assert_less_than_pow2, `D` decompose_fixed_limb_size
    pub kind: char,
    pub bits: usize,
    pub limb_size: usize,
    /// (region index, row offset, column) of the cell concerned
    pub cell: (usize, usize, ColKey),
}

thread_local! {
    static EVENTS: RefCell<Vec<Ev>> = const { RefCell::new(Vec::new()) };
    static CUR_OP: StdCell<usize> = const { StdCell::new(0) };
}

pub fn reset() {
    EVENTS.with(|e| e.borrow_mut().clear());
    CUR_OP.with(|c| c.set(0));
}
pub fn set_op(i: usize) {
    CUR_OP.with(|c| c.set(i));
}
pub fn cur_op() -> usize {
    CUR_OP.with(|c| c.get())
}
pub fn take_events() -> Vec<Ev> {
    EVENTS.with(|e| std::mem::take(&mut *e.borrow_mut()))
}

pub fn col_key(c: &Column<Any>) -> ColKey {
    match c.column_type() {
        Any::Advice(_) => ('a', c.index()),
        Any::Fixed => ('f', c.index()),
        Any::Instance => ('i', c.index()),
    }
}

fn log<F: CircuitField>(kind: char, bits: usize, limb_size: usize, x: &AssignedNative<F>) {
    let c = x.cell();
    let ev = Ev { op: cur_op(), kind, bits, limb_size, cell: (*c.region_index, c.row_offset, col_key(&c.column)) };
    EVENTS.with(|e| e.borrow_mut().push(ev));
}

/// Transparent logging wrapper of the real decomposition chip.
#[derive(Clone, Debug)]
pub struct LogDecomp<F: CircuitField> {
    pub inner: P2RDecompositionChip<F>,
}

impl<F: CircuitField> CoreDecompositionInstructions<F> for LogDecomp<F> {
    fn decompose_fixed_limb_size(
        &self,
        layouter: &mut impl Layouter<F>,
        x: &AssignedNative<F>,
        bit_length: usize,
        limb_size: usize,
    ) -> Result<Vec<AssignedNative<F>>, Error> {
        log('D', bit_length, limb_size, x);
        self.inner.decompose_fixed_limb_size(layouter, x, bit_length, limb_size)
    }

    fn assign_less_than_pow2(
        &self,
        layouter: &mut impl Layouter<F>,
        value: Value<F>,
        bit_length: usize,
    ) -> Result<AssignedNative<F>, Error> {
        let y = self.inner.assign_less_than_pow2(layouter, value, bit_length)?;
        log('A', bit_length, 0, &y);
        Ok(y)
    }

    fn assert_less_than_pow2(
        &self,
        layouter: &mut impl Layouter<F>,
        x: &AssignedNative<F>,
        bit_length: usize,
    ) -> Result<(), Error> {
        log('C', bit_length, 0, x);
        self.inner.assert_less_than_pow2(layouter, x, bit_length)
    }

    fn assign_many_small(
        &self,
        layouter: &mut impl Layouter<F>,
        values: &[Value<F>],
        bit_length: usize,
    ) -> Result<Vec<AssignedNative<F>>, Error> {
        let ys = self.inner.assign_many_small(layouter, values, bit_length)?;
        for y in &ys {
            log('S', bit_length, 0, y);
        }
        Ok(ys)
    }
}

type Abs = (ColKey, usize);

/// Operations whose freshly assigned range-checked cells are native-level inputs or native
/// decompositions, not limb groups of the foreign chip.
fn no_groups(op: &str) -> bool {
    matches!(op, "bits" | "bytes" | "chunks" | "inbit" | "inbits" | "inbytes")
}

/// Per-operation event strings of one recorded synthesis (see the module documentation).
/// `xc` / `zc`: advice column indices of the chip's `x_cols` / `z_cols`; `n`: NB_LIMBS.
pub fn field_trace<F: CircuitField>(
    rec: &Rec<F>,
    events: &[Ev],
    op_names: &[&str],
    nb_ops_done: usize,
    xc: &[usize],
    zc: &[usize],
) -> Vec<String> {
    let n = xc.len();
    let abs = |cell: &(usize, usize, ColKey)| -> Abs { (cell.2, rec.region_start(cell.0) + cell.1) };
    let mut names: HashMap<Abs, String> = HashMap::new();
    // (sort key = region index, op, text)
    let mut out: Vec<(usize, usize, String)> = vec![];

    // ---- assign groups
    let mut r = 0usize;
    let mut i = 0usize;
    while i < events.len() {
        let e = &events[i];
        if e.kind == 'A' && !no_groups(op_names.get(e.op).copied().unwrap_or("")) {
            let run = events[i..].iter().take(n).take_while(|f| f.kind == 'A' && f.op == e.op).count();
            if run == n {
                let bits: Vec<String> = events[i..i + n].iter().map(|f| f.bits.to_string()).collect();
                for (j, f) in events[i..i + n].iter().enumerate() {
                    names.insert(abs(&f.cell), format!("a{r}.{j}"));
                }
                out.push((e.cell.0, e.op, format!("A{r}[{}]", bits.join(","))));
                r += 1;
                i += n;
                continue;
            }
        }
        i += 1;
    }

    // ---- norm regions name their output limbs
    let mut nr = 0usize;
    let mut foreign: Vec<(usize, bool, usize)> = vec![]; // (region, is_mul, ordinal)
    let mut nm = 0usize;
    for (ri, reg) in rec.regions.iter().enumerate() {
        if reg.name == "Foreign norm" {
            let row0 = rec.region_start(ri);
            for (j, c) in zc.iter().enumerate() {
                names.insert((('a', *c), row0), format!("n{nr}.{j}"));
            }
            foreign.push((ri, false, nr));
            nr += 1;
        } else if reg.name == "Foreign multiplication" {
            foreign.push((ri, true, nm));
            nm += 1;
        }
    }

    // name at depth 0: creation-site names and fixed cells; anything else `o`
    let base_name = |a: &Abs, names: &HashMap<Abs, String>| -> String {
        if let Some(s) = names.get(a) {
            return s.clone();
        }
        if a.0 .0 == 'f' {
            return match rec.fixed.get(a) {
                Some(v) => format!("K{}", v.to_biguint()),
                None => "K?".into(),
            };
        }
        "o".into()
    };

    // direct copy edges by endpoint
    let mut edges: HashMap<Abs, Vec<Abs>> = HashMap::new();
    for c in &rec.copies {
        edges.entry(c.left).or_default().push(c.right);
        edges.entry(c.right).or_default().push(c.left);
    }

    // ---- cells computed by a single-row native "Linear combination" region are named by their
    // defining row: `L(c1*src1+c2*src2;k)` — coefficient of every term (the fixed cells of the
    // row, signed), the depth-0 name of the cell copied into every term slot, the constant.
    // (`assign_linear_combination_aux`: result in the first advice slot with coefficient -1, the
    // terms in the following slots; `custom` assigns the coefficients in slot order.)
    let mut lnames: HashMap<Abs, String> = HashMap::new();
    {
        let half = F::modulus() >> 1;
        let signed = |v: &num_bigint::BigUint| -> String {
            if *v > half {
                format!("-{}", F::modulus() - v)
            } else {
                v.to_string()
            }
        };
        let mut by_region: HashMap<usize, Vec<usize>> = HashMap::new();
        for (ci, c) in rec.cells.iter().enumerate() {
            by_region.entry(c.region).or_default().push(ci);
        }
        for (ri, reg) in rec.regions.iter().enumerate() {
            if reg.name != "Linear combination" {
                continue;
            }
            let Some(cells) = by_region.get(&ri) else { continue };
            let row = rec.cells[cells[0]].row;
            if cells.iter().any(|ci| rec.cells[*ci].row != row) {
                continue; // multi-row combination (more than 4 terms): left unnamed
            }
            let coeffs: Vec<&num_bigint::BigUint> =
                reg.fixed_seq.iter().filter(|f| f.0 == "arith coeff" && f.1 == row).map(|f| &f.2).collect();
            let zero = num_bigint::BigUint::from(0u8);
            let get = |n: &str| reg.fixed_seq.iter().find(|f| f.0 == n && f.1 == row).map(|f| f.2.clone());
            let (Some(qn), Some(m1), Some(m2), Some(k)) =
                (get("arith q_next"), get("arith mul_ab"), get("arith mul_ac"), get("arith const"))
            else {
                continue;
            };
            if coeffs.len() < cells.len() || qn != zero || m1 != zero || m2 != zero {
                continue;
            }
            if signed(coeffs[0]) != "-1" {
                continue;
            }
            let mut terms: Vec<String> = cells[1..]
                .iter()
                .enumerate()
                .map(|(i, ci)| {
                    let c = &rec.cells[*ci];
                    let a: Abs = (('a', c.col), c.row);
                    let src = match edges.get(&a) {
                        None => "!".to_string(),
                        Some(v) => v.iter().map(|b| base_name(b, &names)).collect::<Vec<_>>().join("&"),
                    };
                    format!("{}*{}", signed(coeffs[i + 1]), src)
                })
                .collect();
            // the order of the terms of a linear combination is immaterial: sorted
            terms.sort();
            let c0 = &rec.cells[cells[0]];
            lnames.insert((('a', c0.col), c0.row), format!("L({};{})", terms.join("+"), signed(&k)));
        }
    }
    let name_of = |a: &Abs, names: &HashMap<Abs, String>| -> String {
        if let Some(s) = lnames.get(a) {
            if !names.contains_key(a) {
                return s.clone();
            }
        }
        base_name(a, names)
    };
    // range-check events by cell
    let mut rc: HashMap<Abs, Vec<usize>> = HashMap::new();
    for e in events.iter().filter(|e| e.kind == 'C') {
        rc.entry(abs(&e.cell)).or_default().push(e.bits);
    }
    let src = |a: Abs| -> String {
        match edges.get(&a) {
            None => "!".into(),
            Some(v) => v.iter().map(|b| name_of(b, &names)).collect::<Vec<_>>().join("&"),
        }
    };
    let bits_of = |a: Abs| -> String {
        match rc.get(&a) {
            None => "-".into(),
            Some(v) => v.iter().map(|b| b.to_string()).collect::<Vec<_>>().join("/"),
        }
    };
    let foreign_regions: std::collections::HashSet<usize> = foreign.iter().map(|f| f.0).collect();
    for (ri, is_mul, ord) in &foreign {
        let row0 = rec.region_start(*ri);
        let opi = rec.regions[*ri].op;
        let xs: Vec<String> = xc.iter().map(|c| src((('a', *c), row0))).collect();
        // auxiliary cells actually assigned on the second row
        let nv = (1..n).filter(|j| rec.has_cell(*ri, zc[*j], row0 + 1)).count();
        let u = bits_of((('a', zc[0]), row0 + 1));
        let vs: Vec<String> = (1..=nv).map(|j| bits_of((('a', zc[j]), row0 + 1))).collect();
        let vs = if vs.is_empty() { "-".to_string() } else { vs.join(",") };
        if *is_mul {
            let ys: Vec<String> = xc.iter().map(|c| src((('a', *c), row0 + 1))).collect();
            let zs: Vec<String> = zc.iter().map(|c| src((('a', *c), row0))).collect();
            out.push((*ri, opi, format!("M{ord}[x:{};y:{};z:{};u:{u};v:{vs}]", xs.join(","), ys.join(","), zs.join(","))));
        } else {
            let zs: Vec<String> = zc.iter().map(|c| bits_of((('a', *c), row0))).collect();
            out.push((*ri, opi, format!("N{ord}[x:{};z:{};u:{u};v:{vs}]", xs.join(","), zs.join(","))));
        }
    }

    // ---- equalities between named cells, public inputs
    let mut per_op_e: HashMap<usize, (usize, Vec<String>)> = HashMap::new();
    let mut per_op_p: HashMap<usize, (usize, Vec<(usize, String)>)> = HashMap::new();
    for c in &rec.copies {
        // copies made inside a foreign region are its input wiring (reported there)
        if foreign_regions.contains(&c.region) {
            continue;
        }
        let (l, rr) = (c.left, c.right);
        if l.0 .0 == 'i' || rr.0 .0 == 'i' {
            let (inst, other) = if l.0 .0 == 'i' { (l, rr) } else { (rr, l) };
            let e = per_op_p.entry(c.op).or_insert((c.region, vec![]));
            e.1.push((inst.1, name_of(&other, &names)));
            continue;
        }
        let a = name_of(&l, &names);
        let b = name_of(&rr, &names);
        if a == "o" || b == "o" || a.starts_with("L(") || b.starts_with("L(") {
            continue;
        }
        let (a, b) = if a <= b { (a, b) } else { (b, a) };
        per_op_e.entry(c.op).or_insert((c.region, vec![])).1.push(format!("{a}={b}"));
    }
    for (op, (region, v)) in per_op_e {
        out.push((region, op, format!("E[{}]", v.join(","))));
    }
    for (op, (region, mut v)) in per_op_p {
        v.sort();
        out.push((region, op, format!("P[{}]", v.into_iter().map(|x| x.1).collect::<Vec<_>>().join(","))));
    }

    // ---- native decompositions of named cells
    let mut per_op_d: HashMap<usize, (usize, Vec<String>)> = HashMap::new();
    for e in events.iter().filter(|e| e.kind == 'D') {
        let nm = name_of(&abs(&e.cell), &names);
        if nm == "o" {
            continue;
        }
        per_op_d.entry(e.op).or_insert((usize::MAX - 1, vec![])).1.push(format!("{nm}:{}/{}", e.bits, e.limb_size));
    }
    for (op, (region, v)) in per_op_d {
        out.push((region, op, format!("D[{}]", v.join(","))));
    }

    out.sort_by(|a, b| (a.1, a.0, &a.2).cmp(&(b.1, b.0, &b.2)));
    // one entry per executed operation, plus a final one for what is emitted after the last
    // operation (the native chip binds the public inputs when it is loaded)
    let mut per_op: Vec<Vec<String>> = vec![vec![]; nb_ops_done + 1];
    for (_, op, s) in out {
        if op < nb_ops_done {
            per_op[op].push(s);
        } else if op == op_names.len() {
            per_op[nb_ops_done].push(s);
        }
    }
    per_op.into_iter().map(|v| if v.is_empty() { "-".to_string() } else { v.join(" ") }).collect()
}
