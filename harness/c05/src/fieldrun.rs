//! Field-chip programs: generation (boundary classes, un-normalised chains, random), real
//! synthesis + MockProver, oracles (honest accepted / unsatisfiable rejected / values equal the
//! reference), correspondence lines, and the tamper sweep on the mul / norm regions.
use ff::FromUniformBytes;
use midnight_circuits::{field::foreign::params::FieldEmulationParams, CircuitField};
use midnight_proofs::{
    circuit::{verif_hooks, SimpleFloorPlanner},
    dev::{CellValue, MockProver},
    plonk::{Circuit, ConstraintSystem, FloorPlanner},
};
use mzkh::{catch, Ctx};
use num_bigint::{BigUint, RandBigInt};
use num_traits::{One, Zero};
use rand::Rng;
use rand_chacha::ChaCha8Rng;
use serde_json::json;

use crate::{
    fop,
    prog::{pi_encoding, reference, render_prog, Op, Outcome, ProgCircuit, RVal, Reference},
    rec::Rec,
    sets::MEP,
};

/// `ctx.oracle_fail`, echoing to stderr when `C05_DEBUG` is set.
pub fn ofail(ctx: &mut Ctx, key: &str, what: &str, detail: serde_json::Value) {
    if std::env::var("C05_DEBUG").is_ok() {
        eprintln!("ORACLE {key} || {what} || {detail}");
    }
    ctx.oracle_fail(key, what, detail);
}

pub struct MockRun<F: ff::Field> {
    /// `Ok(true)` accepted, `Ok(false)` rejected, `Err` synthesis error / panic
    pub verdict: Result<bool, String>,
    pub outcome: Outcome,
    pub prover: Option<MockProver<F>>,
    pub k: u32,
}

/// Real synthesis + real `MockProver::verify` with the given public inputs.
pub fn mock<F, K>(ops: &[Op], public: &[F], k0: u32) -> MockRun<F>
where
    F: CircuitField + FromUniformBytes<64> + Ord,
    K: CircuitField,
    MEP: FieldEmulationParams<F, K>,
{
    let mut k = k0;
    loop {
        let circuit = ProgCircuit::<F, K>::new(ops.to_vec());
        verif_hooks::set_plan::<F>(verif_hooks::TamperPlan::new(vec![]));
        let r = catch(|| MockProver::run(k, &circuit, vec![vec![], public.to_vec()]));
        let _ = verif_hooks::take_plan::<F>();
        let outcome = circuit.outcome.borrow().clone();
        match r {
            Err(p) if p.contains("usable_rows") && k < 19 => {
                k += 1;
                continue;
            }
            Err(p) => return MockRun { verdict: Err(format!("panic: {p}")), outcome, prover: None, k },
            Ok(Err(e)) => {
                let msg = format!("{e:?} {}", outcome.error.clone().unwrap_or_default());
                if (msg.contains("NotEnoughRows") || msg.contains("usable_rows")) && k < 18 {
                    k += 1;
                    continue;
                }
                if outcome.stopped.is_some() {
                    return MockRun { verdict: Err("stopped".into()), outcome, prover: None, k };
                }
                return MockRun { verdict: Err(format!("error: {msg}")), outcome, prover: None, k };
            }
            Ok(Ok(prover)) => {
                if outcome.stopped.is_some() {
                    return MockRun { verdict: Err("stopped".into()), outcome, prover: None, k };
                }
                let v = catch(|| prover.verify().is_ok());
                return match v {
                    Ok(b) => MockRun { verdict: Ok(b), outcome, prover: Some(prover), k },
                    Err(p) => MockRun { verdict: Err(format!("verify panic: {p}")), outcome, prover: None, k },
                };
            }
        }
    }
}

/// Recording synthesis (regions, advice cells in H1 order with absolute coordinates).
pub fn record<F, K>(ops: &[Op]) -> Option<Rec<F>>
where
    F: CircuitField + FromUniformBytes<64> + Ord,
    K: CircuitField,
    MEP: FieldEmulationParams<F, K>,
{
    let circuit = ProgCircuit::<F, K>::new(ops.to_vec());
    catch(|| {
        let mut cs = ConstraintSystem::<F>::default();
        let config = ProgCircuit::<F, K>::configure(&mut cs);
        let mut rec = Rec::<F>::default();
        let constants = cs.constants().clone();
        SimpleFloorPlanner::synthesize(&mut rec, &circuit, config, constants).ok().map(|_| rec)
    })
    .ok()
    .flatten()
}

/// Recording synthesis together with the foreign-level trace (range checks as emitted, wiring):
/// one string per executed operation (`trace::field_trace`), and `E`/`P` when the program stopped.
pub fn trace_of<F, K>(ops: &[Op]) -> Option<Vec<String>>
where
    F: CircuitField + FromUniformBytes<64> + Ord,
    K: CircuitField,
    MEP: FieldEmulationParams<F, K>,
{
    let circuit = ProgCircuit::<F, K>::new(ops.to_vec());
    let r = catch(|| {
        let mut cs = ConstraintSystem::<F>::default();
        let config = ProgCircuit::<F, K>::configure(&mut cs);
        let cols = config.field_cols();
        let mut rec = Rec::<F>::default();
        let constants = cs.constants().clone();
        let _ = SimpleFloorPlanner::synthesize(&mut rec, &circuit, config, constants);
        (rec, cols)
    })
    .ok()?;
    let (rec, (xc, zc)) = r;
    let events = crate::trace::take_events();
    let outcome = circuit.outcome.borrow().clone();
    let names: Vec<&str> = ops.iter().map(|o| o.name).collect();
    let mut v = crate::trace::field_trace(&rec, &events, &names, outcome.outs.len(), &xc, &zc);
    if let Some(st) = &outcome.stopped {
        v.pop();
        v.push(st.clone());
    }
    Some(v)
}

pub struct SetInfo {
    pub name: &'static str,
    pub m: BigUint,
    pub log2_base: u32,
    pub nb_limbs: u32,
    pub num_bits: usize,
}

pub fn set_info<F: CircuitField, K: CircuitField>(name: &'static str) -> SetInfo
where
    MEP: FieldEmulationParams<F, K>,
{
    SetInfo {
        name,
        m: K::modulus(),
        log2_base: <MEP as FieldEmulationParams<F, K>>::LOG2_BASE,
        nb_limbs: <MEP as FieldEmulationParams<F, K>>::NB_LIMBS,
        num_bits: K::NUM_BITS as usize,
    }
}

/// Boundary operands of the property's quantifier: 0, 1, m-1, m-2, values whose limb
/// representation (of x-1) has all-ones limbs, values near 2^(limb bits), random.
pub fn boundary_values(s: &SetInfo, rng: &mut ChaCha8Rng) -> Vec<(String, BigUint)> {
    let m = &s.m;
    let base = BigUint::one() << s.log2_base;
    let one = BigUint::one();
    let mut v: Vec<(String, BigUint)> = vec![
        ("0".into(), BigUint::zero()),
        ("1".into(), one.clone()),
        ("2".into(), BigUint::from(2u8)),
        ("m-1".into(), m - &one),
        ("m-2".into(), m - BigUint::from(2u8)),
        ("half".into(), (m - &one) >> 1),
        // x - 1 = base - 1: least significant limb all ones
        ("base".into(), base.clone() % m),
        ("base-1".into(), (&base - &one) % m),
        ("base+1".into(), (&base + &one) % m),
        // x - 1 has its n-1 low limbs all ones
        ("base^(n-1)".into(), base.pow(s.nb_limbs - 1) % m),
        ("base^(n-1)+1".into(), (base.pow(s.nb_limbs - 1) + &one) % m),
        ("base^2".into(), base.pow(2) % m),
        // the largest value whose representation has every limb all ones within the msl bound
        ("2^(bits-1)".into(), (BigUint::one() << (m.bits() - 1)) % m),
        ("2^(bits-1)-1".into(), ((BigUint::one() << (m.bits() - 1)) - &one) % m),
    ];
    for i in 0..2 {
        v.push((format!("rnd{i}"), rng.gen_biguint_below(m)));
    }
    v
}

fn hex(b: &BigUint) -> String {
    format!("0x{}", b.to_str_radix(16))
}

#[derive(Clone, Debug)]
pub struct Case {
    pub kind: String,
    pub ops: Vec<Op>,
}

/// Programs for one parameter set.
pub fn gen_cases(s: &SetInfo, ctx: &Ctx) -> Vec<Case> {
    let mut rng = ctx.rng(&format!("field:{}{}", s.name, if ctx.search() { ":search" } else { "" }));
    let quick = crate::small(ctx);
    let mut bv = boundary_values(s, &mut rng);
    if quick {
        bv.retain(|(n, _)| !matches!(n.as_str(), "2" | "half" | "base+1" | "base^2" | "base^(n-1)+1"));
    }
    let m = &s.m;
    let mut cases: Vec<Case> = vec![];
    let base = BigUint::one() << s.log2_base;
    let mut push = |kind: &str, ops: Vec<Op>| cases.push(Case { kind: kind.into(), ops });

    // ---- regression cases of the six defects repaired in /repo (findings/C05.json)
    push("regression", vec![fop!("fix", "0x1"), fop!("in", "0x7"), fop!("mulk", 0, 1, "0x3"), fop!("mulk", 1, 0, "0x3"), fop!("pi", 2), fop!("pi", 3)]);
    push("regression", vec![fop!("in", "0x5"), fop!("mulc", 0, hex(&(&(BigUint::one() << s.log2_base) / BigUint::from(1000u32)))), fop!("mulc", 1, hex(&(&(BigUint::one() << s.log2_base) / BigUint::from(1000u32)))), fop!("pi", 2)]);
    push("regression", vec![fop!("in", hex(&(BigUint::one() << s.log2_base))), fop!("bits", 0, "-", 0), fop!("frombits", 1), fop!("asserteq", 0, 2)]);
    push("regression", vec![fop!("in", "0x5"), fop!("bytes", 0, "-"), fop!("bits", 0, s.num_bits + 3, 1), fop!("bits", 0, s.num_bits + 3, 0)]);
    push("regression", vec![fop!("in", "0x40000000"), fop!("chunks", 0, 7, 3)]);
    push("regression", vec![fop!("in", "0x40000000"), fop!("chunks", 0, 7, 5)]);
    push("regression", vec![fop!("in", "0x0"), fop!("chunks", 0, s.log2_base / 4, 4 * s.nb_limbs + 3)]);

    // ---- unary operations on every boundary value (witness and fixed)
    for (i, (_, v)) in bv.iter().enumerate() {
        let src = if i % 3 == 2 { "fix" } else { "in" };
        push(
            "unary",
            vec![
                fop!(src, hex(v)),
                fop!("neg", 0),
                fop!("inv0", 0),
                fop!("iszero", 0),
                fop!("addc", 0, hex(&(m - BigUint::one()))),
                fop!("mulc", 0, 3),
                fop!("iseqc", 0, hex(v)),
                fop!("pi", 0),
                fop!("pi", 1),
                fop!("pi", 2),
                fop!("pi", 4),
                fop!("pi", 5),
            ],
        );
        push("inv", vec![fop!("in", hex(v)), fop!("inv", 0), fop!("mul", 0, 1), fop!("pi", 1), fop!("pi", 2)]);
        push("bits-canon", vec![fop!("in", hex(v)), fop!("bits", 0, "-", 1), fop!("frombits", 1), fop!("asserteq", 0, 2)]);
        push("bits-noncanon", vec![fop!("in", hex(v)), fop!("bits", 0, "-", 0), fop!("frombits", 1), fop!("asserteq", 0, 2)]);
        push("bytes", vec![fop!("in", hex(v)), fop!("bytes", 0, "-"), fop!("frombytes", 1), fop!("asserteq", 0, 2)]);
        if !quick || i % 2 == 0 {
            let nb = (v.bits() as usize).max(1);
            push("bits-tight", vec![fop!("in", hex(v)), fop!("bits", 0, nb, 1)]);
            if nb > 1 {
                push("bits-short", vec![fop!("in", hex(v)), fop!("bits", 0, nb - 1, 1)]);
            }
            let nby = nb.div_ceil(8);
            push("bytes-tight", vec![fop!("in", hex(v)), fop!("bytes", 0, nby)]);
            if v.bits() > 8 {
                push("bytes-short", vec![fop!("in", hex(v)), fop!("bytes", 0, nby - 1)]);
            }
            push("chunks", vec![fop!("in", hex(v)), fop!("chunks", 0, s.log2_base / 4, "-")]);
            push("chunks-odd", vec![fop!("in", hex(v)), fop!("chunks", 0, 7, "-")]);
            let w = (s.log2_base / 4) as usize;
            let need = (v.bits() as usize).div_ceil(w).max(1);
            push("chunks-n", vec![fop!("in", hex(v)), fop!("chunks", 0, w, need)]);
            let need7 = (v.bits() as usize).div_ceil(7).max(1);
            push("chunks-odd-n", vec![fop!("in", hex(v)), fop!("chunks", 0, 7, need7)]);
            if need7 > 1 {
                push("chunks-odd-short", vec![fop!("in", hex(v)), fop!("chunks", 0, 7, need7 - 1)]);
            }
            if need > 1 {
                push("chunks-short", vec![fop!("in", hex(v)), fop!("chunks", 0, w, need - 1)]);
            }
            push("chunks-odd-long", vec![fop!("in", hex(v)), fop!("chunks", 0, 7, s.num_bits.div_ceil(7) + 2)]);
        }
        push("inpi", vec![fop!("inpi", hex(v)), fop!("add", 0, 0), fop!("pi", 1)]);
        push("assertnz", vec![fop!("in", hex(v)), fop!("assertnz", 0)]);
        push("asserteqc", vec![fop!("in", hex(v)), fop!("asserteqc", 0, hex(v)), fop!("assertneqc", 0, hex(&((v + BigUint::one()) % m)))]);
        push("asserteqc-wrong", vec![fop!("in", hex(v)), fop!("asserteqc", 0, hex(&((v + BigUint::one()) % m)))]);
        push("assertneqc-wrong", vec![fop!("in", hex(v)), fop!("assertneqc", 0, hex(v))]);
    }

    // ---- binary operations on boundary pairs
    for (i, (_, a)) in bv.iter().enumerate() {
        for (j, (_, b)) in bv.iter().enumerate() {
            if quick && (i * 7 + j * 3) % 11 != 0 && i != j {
                continue;
            }
            if !quick && (i + j) % 2 != 0 && i != j {
                continue;
            }
            let sa = if (i + j) % 4 == 3 { "fix" } else { "in" };
            push(
                "binary",
                vec![
                    fop!(sa, hex(a)),
                    fop!("in", hex(b)),
                    fop!("add", 0, 1),
                    fop!("sub", 0, 1),
                    fop!("mul", 0, 1),
                    fop!("iseq", 0, 1),
                    fop!("isneq", 0, 1),
                    fop!("pi", 2),
                    fop!("pi", 3),
                    fop!("pi", 4),
                ],
            );
            push("div", vec![fop!("in", hex(a)), fop!("in", hex(b)), fop!("div", 0, 1), fop!("mul", 2, 1), fop!("asserteq", 3, 0), fop!("pi", 2)]);
            if !quick || (i + j) % 3 == 0 {
                push("asserteq", vec![fop!("in", hex(a)), fop!("in", hex(b)), fop!("asserteq", 0, 1)]);
                push("assertneq", vec![fop!("in", hex(a)), fop!("in", hex(b)), fop!("assertneq", 0, 1)]);
                push(
                    "select",
                    vec![
                        fop!("in", hex(a)),
                        fop!("in", hex(b)),
                        fop!("inbit", (i + j) % 2),
                        fop!("add", 0, 0),
                        fop!("select", 2, 3, 1),
                        fop!("mul", 4, 4),
                        fop!("pi", 5),
                    ],
                );
                push("mulk", vec![fop!("in", hex(a)), fop!("in", hex(b)), fop!("mulk", 0, 1, hex(&bv[(i + 3) % bv.len()].1)), fop!("pi", 2)]);
            }
        }
    }

    // ---- equality / exposure of two different representations of one residue (un-normalised
    // chains on one or both sides; the operands of assert_equal / is_equal are NOT well-formed)
    for (i, (_, a)) in bv.iter().enumerate() {
        if quick && i % 3 != 0 {
            continue;
        }
        let b = &bv[(i + 2) % bv.len()].1;
        push(
            "eq-unnorm",
            vec![
                fop!("in", hex(a)),
                fop!("in", hex(b)),
                fop!("add", 0, 1),      // 2: a + b (lazy)
                fop!("add", 1, 0),      // 3: b + a (lazy)
                fop!("asserteq", 2, 3), // both sides un-normalised
                fop!("sub", 2, 1),      // 4 -> 5: (a + b) - b, lazy on lazy
                fop!("asserteq", 5, 0), // un-normalised vs well-formed
                fop!("asserteq", 0, 5), // well-formed vs un-normalised
                fop!("iseq", 5, 0),
                fop!("iseq", 2, 0),
                fop!("assertneq", 2, 5),
                fop!("pi", 5),
                fop!("pi", 3),
            ],
        );
        push("eq-unnorm-wrong", vec![fop!("in", hex(a)), fop!("in", hex(b)), fop!("add", 0, 1), fop!("addc", 1, "0x1"), fop!("add", 3, 0), fop!("asserteq", 2, 4)]);
    }

    // ---- constants around the mul_by_constant threshold (max_limb_bound / (1000·base))
    let thr = &base / BigUint::from(1000u32);
    for k in [
        BigUint::zero(),
        BigUint::one(),
        BigUint::from(2u8),
        &thr - BigUint::one(),
        thr.clone(),
        &thr + BigUint::one(),
        base.clone() % m,
        m - BigUint::one(),
    ] {
        for (_, v) in bv.iter().step_by(if quick { 5 } else { 2 }) {
            push("mulc", vec![fop!("in", hex(v)), fop!("mulc", 0, hex(&k)), fop!("addc", 1, hex(&k)), fop!("pi", 1), fop!("pi", 2)]);
        }
    }

    // ---- chains that leave elements un-normalised
    let chain_len = (s.log2_base as usize) + 4;
    for (i, (_, v)) in bv.iter().enumerate() {
        if quick && i % 4 != 0 {
            continue;
        }
        // doubling chain: bounds grow by a factor 2 per step until normalisation triggers
        let mut ops = vec![fop!("in", hex(v))];
        for t in 0..chain_len {
            ops.push(fop!("add", t, t));
        }
        ops.push(fop!("pi", chain_len));
        push("chain-double", ops);
        // alternating sub/neg chain: negative bounds
        let mut ops = vec![fop!("in", hex(v)), fop!("in", hex(&bv[(i + 5) % bv.len()].1))];
        for t in 0..12 {
            ops.push(if t % 3 == 2 { fop!("neg", t + 1) } else { fop!("sub", t + 1, t) });
        }
        ops.push(fop!("mul", 13, 12));
        ops.push(fop!("iszero", 13));
        ops.push(fop!("pi", 13));
        ops.push(fop!("pi", 14));
        push("chain-sub", ops);
        // un-normalised operands into every consumer
        let mut ops = vec![fop!("in", hex(v)), fop!("in", hex(&bv[(i + 1) % bv.len()].1))];
        ops.push(fop!("mulc", 0, 5)); // 2
        ops.push(fop!("sub", 2, 1)); // 3
        ops.push(fop!("add", 3, 3)); // 4
        ops.push(fop!("iseq", 4, 0)); // 5
        ops.push(fop!("mul", 4, 3)); // 6
        ops.push(fop!("div", 4, 0)); // 7 (unsat when v = 0)
        ops.push(fop!("bits", 4, "-", 1)); // 8
        ops.push(fop!("bytes", 3, "-")); // 9
        ops.push(fop!("inv0", 4)); // 10
        ops.push(fop!("pi", 4));
        ops.push(fop!("pi", 6));
        push("unnormalised", ops);
        // linear combination
        let ks: Vec<BigUint> = vec![BigUint::from(3u8), &thr + BigUint::from(7u8), m - BigUint::one(), BigUint::zero(), BigUint::one()];
        let mut ops = vec![];
        for t in 0..5 {
            ops.push(fop!("in", hex(&bv[(i + t) % bv.len()].1)));
        }
        let terms = (0..5).map(|t| format!("{}:{}", hex(&ks[t]), t)).collect::<Vec<_>>().join(",");
        ops.push(fop!("lc", hex(&bv[(i + 2) % bv.len()].1), terms));
        ops.push(fop!("lc", 0, "-"));
        ops.push(fop!("pi", 5));
        ops.push(fop!("pi", 6));
        push("lc", ops);
    }

    // ---- bit / byte conversions of arbitrary length
    for len in [0usize, 1, 7, 8, s.log2_base as usize - 1, s.log2_base as usize, s.log2_base as usize + 1, s.num_bits - 1, s.num_bits, s.num_bits + 1, s.num_bits + 9] {
        let bits: String = (0..len).map(|_| if rng.gen_bool(0.5) { '1' } else { '0' }).collect();
        let ones: String = "1".repeat(len);
        for b in [bits, ones] {
            let arg = if b.is_empty() { "-".to_string() } else { b };
            push("frombits", vec![fop!("inbits", arg), fop!("frombits", 0), fop!("pi", 1)]);
        }
        let nby = len / 8;
        let bytes: Vec<u8> = (0..nby).map(|_| rng.gen()).collect();
        let ff: Vec<u8> = vec![255; nby];
        for b in [bytes, ff] {
            push("frombytes", vec![fop!("inbytes", mzkh::join(&b)), fop!("frombytes", 0), fop!("pi", 1)]);
        }
    }
    push("bit2f", vec![fop!("inbit", 1), fop!("bit2f", 0), fop!("inbit", 0), fop!("bit2f", 2), fop!("add", 1, 3), fop!("mul", 1, 3), fop!("pi", 4), fop!("pi", 5)]);

    // ---- random programs
    let nrand = if quick { 12 } else { 50 };
    for _ in 0..nrand {
        let mut ops: Vec<Op> = vec![];
        let mut fes: Vec<usize> = vec![];
        let nin = rng.gen_range(2..5);
        for _ in 0..nin {
            let v = if rng.gen_bool(0.5) { bv[rng.gen_range(0..bv.len())].1.clone() } else { rng.gen_biguint_below(m) };
            fes.push(ops.len());
            ops.push(if rng.gen_bool(0.2) { fop!("fix", hex(&v)) } else { fop!("in", hex(&v)) });
        }
        let nops = rng.gen_range(4..25);
        for _ in 0..nops {
            let a = fes[rng.gen_range(0..fes.len())];
            let b = fes[rng.gen_range(0..fes.len())];
            let k = match rng.gen_range(0..4) {
                0 => BigUint::from(rng.gen_range(0u32..10)),
                1 => &thr + BigUint::from(rng.gen_range(0u32..3)) - BigUint::one(),
                _ => rng.gen_biguint_below(m),
            };
            let o = match rng.gen_range(0..12) {
                0 | 1 => fop!("add", a, b),
                2 | 3 => fop!("sub", a, b),
                4 => fop!("neg", a),
                5 | 6 => fop!("mul", a, b),
                7 => fop!("addc", a, hex(&k)),
                8 => fop!("mulc", a, hex(&k)),
                9 => fop!("inv0", a),
                10 => fop!("mulk", a, b, hex(&k)),
                _ => fop!("lc", hex(&k), format!("{}:{},{}:{}", hex(&k), a, 2, b)),
            };
            fes.push(ops.len());
            ops.push(o);
        }
        let last = *fes.last().unwrap();
        ops.push(fop!("pi", last));
        ops.push(fop!("iszero", last));
        push("random", ops);
    }
    cases
}

fn check_values(m: &BigUint, ops: &[Op], r: &Reference, out: &Outcome) -> Option<String> {
    for (i, v) in r.vals.iter().enumerate() {
        if i >= out.outs.len() {
            break;
        }
        // documented non-canonical outputs: only the represented residue is specified
        let noncanonical = (ops[i].name == "bits" && ops[i].args[2] == "0") || ops[i].name == "chunks";
        if noncanonical {
            if let (RVal::Scal(x), Some(got)) = (v, &out.scalars[i]) {
                let w: u64 = if ops[i].name == "chunks" { ops[i].args[1].parse().unwrap() } else { 1 };
                let val = |l: &Vec<BigUint>| l.iter().enumerate().fold(BigUint::zero(), |a, (j, c)| a + (c << (w * j as u64))) % m;
                if val(got) != val(x) {
                    return Some(format!("op {i}: non-canonical decomposition {got:?} does not represent {x:?}"));
                }
                if ops[i].name == "chunks" && ops[i].args[2] != "-" && got.len() != ops[i].args[2].parse::<usize>().unwrap() {
                    return Some(format!("op {i}: {} chunks returned, {} requested", got.len(), ops[i].args[2]));
                }
                if got.iter().any(|c| c.bits() > w) {
                    return Some(format!("op {i}: chunk wider than {w} bits"));
                }
            }
            continue;
        }
        match v {
            RVal::Fe(x) => {
                if out.values[i].as_ref() != Some(x) {
                    return Some(format!("op {i}: value {:?} expected {x}", out.values[i]));
                }
            }
            RVal::Scal(x) => {
                if let Some(got) = &out.scalars[i] {
                    if got != x {
                        return Some(format!("op {i}: scalars {got:?} expected {x:?}"));
                    }
                }
            }
            RVal::Unit => {}
        }
    }
    None
}

/// One program: correspondence line and the property's oracles.
pub fn run_case<F, K>(ctx: &mut Ctx, s: &SetInfo, case: &Case) -> Option<MockRun<F>>
where
    F: CircuitField + FromUniformBytes<64> + Ord,
    K: CircuitField,
    MEP: FieldEmulationParams<F, K>,
{
    let prog = render_prog(&case.ops);
    let r = reference(&s.m, s.num_bits, &case.ops);
    let public: Vec<F> = r.public.iter().flat_map(|v| pi_encoding::<F, K>(v)).collect();
    let run = mock::<F, K>(&case.ops, &public, 11);
    let verdict = match &run.verdict {
        Ok(true) => "sat",
        Ok(false) => "unsat",
        Err(e) if e == "stopped" => "stopped",
        Err(_) => "fail",
    };
    let mut outs = run.outcome.outs.clone();
    if let Some(st) = &run.outcome.stopped {
        outs.push(st.clone());
    }
    let line = format!("{} => {}", outs.join(" | "), verdict);
    ctx.case(&format!("fp:{}", case.kind), true, &format!("fp {} ; {}", s.name, prog), &line);
    ctx.count(&format!("fp-verdict:{verdict}"));
    // range checks as emitted (bit lengths read back from the real decomposition chip) and wiring
    match trace_of::<F, K>(&case.ops) {
        Some(t) => ctx.case(&format!("fpt:{}", case.kind), true, &format!("fpt {} ; {}", s.name, prog), &t.join(" | ")),
        None => ctx.count("fpt:unavailable"),
    }
    let key = format!("{}:{}", s.name, prog);
    // oracles
    if r.sat {
        if verdict != "sat" {
            ofail(ctx, 
                &format!("honest-rejected:{}:{}", s.name, case.kind),
                "the circuit of an operation with admissible operands is not satisfied by the honest witness",
                json!({"set": s.name, "program": prog, "verdict": format!("{:?}", run.verdict), "kind": case.kind}),
            );
        } else {
            if let Some(d) = check_values(&s.m, &case.ops, &r, &run.outcome) {
                ofail(ctx, 
                    &format!("wrong-value:{key}"),
                    "an operation returns a value different from the reference arithmetic",
                    json!({"set": s.name, "program": prog, "detail": d}),
                );
            }
        }
    } else if verdict == "sat" {
        ofail(ctx, 
            &format!("unsat-accepted:{key}"),
            "a program whose assertions are false (or that divides by zero / does not fit) is satisfied",
            json!({"set": s.name, "program": prog}),
        );
    }
    Some(run)
}

/// Wrong public inputs must be rejected: the honest witness with one limb of the exposed values
/// changed, and with the non-canonical encoding `v + m` when it fits the limbs.
pub fn wrong_public<F, K>(ctx: &mut Ctx, s: &SetInfo, case: &Case)
where
    F: CircuitField + FromUniformBytes<64> + Ord,
    K: CircuitField,
    MEP: FieldEmulationParams<F, K>,
{
    let r = reference(&s.m, s.num_bits, &case.ops);
    if !r.sat || r.public.is_empty() {
        return;
    }
    let public: Vec<F> = r.public.iter().flat_map(|v| pi_encoding::<F, K>(v)).collect();
    let n = s.nb_limbs as usize;
    let prog = render_prog(&case.ops);
    // (a) +1 on each limb of the last exposed element
    for j in 0..n {
        let mut p = public.clone();
        let at = p.len() - n + j;
        p[at] += F::ONE;
        let run = mock::<F, K>(&case.ops, &p, 11);
        ctx.count("wrong-public:limb+1");
        if run.verdict == Ok(true) {
            ofail(ctx, 
                &format!("wrong-public-accepted:{}:{}", s.name, prog),
                "a public input different from the exposed element is accepted",
                json!({"set": s.name, "program": prog, "limb": j}),
            );
        }
    }
    // (b) the non-canonical representation v + m (same residue) where it fits in n limbs:
    // exposure must treat it like any other wrong encoding (the encoder is canonical)
    let v = r.public.last().unwrap();
    let shifted = (v + &s.m + &s.m - BigUint::one()) % &s.m + &s.m; // (v - 1 mod m) + m
    let base = BigUint::one() << s.log2_base;
    if shifted < base.pow(s.nb_limbs) {
        let mut p = public.clone();
        let mut q = shifted.clone();
        for j in 0..n {
            let limb = &q % &base;
            q /= &base;
            let at = p.len() - n + j;
            p[at] = mzkh::fe_from_big::<F>(&limb);
        }
        let run = mock::<F, K>(&case.ops, &p, 11);
        ctx.count("wrong-public:noncanonical");
        if run.verdict == Ok(true) {
            ofail(ctx, 
                &format!("noncanonical-public-accepted:{}:{}", s.name, prog),
                "the non-canonical limb encoding (value + m) of an exposed element is accepted as public input",
                json!({"set": s.name, "program": prog}),
            );
        }
    }
}

/// Fault values of the property's quantifier for a cell of the given parameter set.
fn faults<F: CircuitField>(s: &SetInfo, rng: &mut ChaCha8Rng, quick: bool) -> Vec<(String, Box<dyn Fn(F) -> F>)> {
    let base: F = mzkh::fe_from_big::<F>(&(BigUint::one() << s.log2_base));
    let b2 = BigUint::one() << s.log2_base;
    let m0: F = mzkh::fe_from_big::<F>(&(&s.m % &b2));
    let m1: F = mzkh::fe_from_big::<F>(&((&s.m >> s.log2_base) % &b2));
    let r: F = mzkh::fe_from_big::<F>(&rng.gen_biguint(250));
    let mut v: Vec<(String, Box<dyn Fn(F) -> F>)> = vec![
        ("+1".into(), Box::new(|x| x + F::ONE)),
        ("+base".into(), Box::new(move |x| x + base)),
        ("random".into(), Box::new(move |x| x + r)),
    ];
    if !quick {
        v.push(("-1".into(), Box::new(|x| x - F::ONE)));
        v.push(("-base".into(), Box::new(move |x| x - base)));
        v.push(("+m.limb0".into(), Box::new(move |x| x + m0)));
        v.push(("+m.limb1".into(), Box::new(move |x| x + m1)));
        v.push(("zero".into(), Box::new(|_| F::ZERO)));
    }
    v
}

/// Tamper sweep (H2 on the table of an honest run, cells located by the recorder): every advice
/// cell of every "Foreign multiplication" / "Foreign norm" region, plus a sample of the other
/// cells of the program, × fault values. A changed cell must make `MockProver::verify` fail.
pub fn tamper_sweep<F, K>(ctx: &mut Ctx, s: &SetInfo, case: &Case, sample_other: usize)
where
    F: CircuitField + FromUniformBytes<64> + Ord,
    K: CircuitField,
    MEP: FieldEmulationParams<F, K>,
{
    let r = reference(&s.m, s.num_bits, &case.ops);
    if !r.sat {
        return;
    }
    let public: Vec<F> = r.public.iter().flat_map(|v| pi_encoding::<F, K>(v)).collect();
    let run = mock::<F, K>(&case.ops, &public, 11);
    let Some(mut prover) = run.prover else { return };
    if run.verdict != Ok(true) {
        return;
    }
    let Some(rec) = record::<F, K>(&case.ops) else { return };
    let mut rng = ctx.rng(&format!("tamper:{}:{}", s.name, case.kind));
    let fl = faults::<F>(s, &mut rng, crate::small(ctx));
    let prog = render_prog(&case.ops);
    let mut targets: Vec<usize> = vec![];
    let mut others: Vec<usize> = vec![];
    for (ci, c) in rec.cells.iter().enumerate() {
        let name = rec.regions[c.region].name.as_str();
        if name == "Foreign multiplication" || name == "Foreign norm" {
            targets.push(ci);
        } else {
            others.push(ci);
        }
    }
    for _ in 0..sample_other.min(others.len()) {
        let i = rng.gen_range(0..others.len());
        targets.push(others.swap_remove(i));
    }
    for ci in targets {
        let c = &rec.cells[ci];
        let rname = rec.regions[c.region].name.clone();
        let off = c.row - rec.regions[c.region].first_row.unwrap_or(0);
        for (fname, f) in fl.iter() {
            let old = prover.advice()[c.col][c.row];
            let CellValue::Assigned(ov) = old else { continue };
            let nv = f(ov);
            if nv == ov {
                continue;
            }
            prover.verif_advice_mut()[c.col][c.row] = CellValue::Assigned(nv);
            let ok = catch(|| prover.verify().is_ok()).unwrap_or(false);
            prover.verif_advice_mut()[c.col][c.row] = old;
            ctx.count(&format!("tamper:{}:{}", if rname.starts_with("Foreign") { rname.as_str() } else { "other" }, if ok { "ACCEPTED" } else { "rejected" }));
            if ok && rname.starts_with("Foreign") {
                ofail(ctx, 
                    &format!("tamper-accepted:{}:{}:{}", s.name, rname, off),
                    "a changed advice cell (quotient / carry / limb) is accepted by the real constraint system",
                    json!({"set": s.name, "program": prog, "region": rname, "col": c.col, "row_offset": off, "fault": fname}),
                );
            }
        }
    }
}

pub fn run_set<F, K>(ctx: &mut Ctx, name: &'static str)
where
    F: CircuitField + FromUniformBytes<64> + Ord,
    K: CircuitField,
    MEP: FieldEmulationParams<F, K>,
{
    let s = set_info::<F, K>(name);
    // the chip must configure (check_params, mul / norm bounds) for a compiled-in set
    if let Err(p) = catch(|| {
        let mut cs = ConstraintSystem::<F>::default();
        let _ = ProgCircuit::<F, K>::configure(&mut cs);
    }) {
        ofail(
            ctx,
            &format!("configure:{name}"),
            "a compiled-in parameter set fails its configure-time checks",
            json!({"set": name, "panic": p, "replay": format!("C05_PROG=\"{name} ; in 0x1 ; in 0x2 ; mul 0 1\" harness/target/release/h-c05")}),
        );
        return;
    }
    let cases = gen_cases(&s, ctx);
    crate::gates::geval::<F, K>(ctx, name, if crate::small(ctx) { 6 } else { 40 });
    let mut done_rows = 0usize;
    let mut done_wrong = 0;
    let mut done_tamper = std::collections::BTreeMap::<String, usize>::new();
    for case in &cases {
        let Some(run) = run_case::<F, K>(ctx, &s, case) else { continue };
        if run.verdict == Ok(true) && case.ops.iter().any(|o| o.name == "pi") {
            let lim = if crate::small(ctx) { 3 } else { 10 };
            if done_wrong < lim && matches!(case.kind.as_str(), "binary" | "unary" | "random" | "chain-double" | "regression") {
                done_wrong += 1;
                wrong_public::<F, K>(ctx, &s, case);
            }
        }
        if run.verdict == Ok(true)
            && matches!(case.kind.as_str(), "binary" | "div" | "unnormalised" | "chain-sub" | "chain-double" | "random" | "lc" | "mulc" | "frombits")
            && done_rows < if crate::small(ctx) { 60 } else { 250 }
        {
            if let Some(rec) = record::<F, K>(&case.ops) {
                done_rows += 1;
                crate::gates::rows::<F, K>(ctx, name, &rec, 4);
            }
        }
        let per_kind = if crate::small(ctx) { 1 } else { 2 };
        let tamper_kinds: &[&str] = if ctx.quick() { &["binary", "div", "unnormalised"] } else { &["binary", "div", "unnormalised", "chain-sub", "inv", "lc"] };
        if run.verdict == Ok(true) && tamper_kinds.contains(&case.kind.as_str()) {
            let e = done_tamper.entry(case.kind.clone()).or_insert(0);
            if *e < per_kind {
                *e += 1;
                tamper_sweep::<F, K>(ctx, &s, case, if crate::small(ctx) { 6 } else { 25 });
            }
        }
    }
}
