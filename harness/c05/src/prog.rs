//! Small programs over the REAL foreign-field chip (`FieldChip<F, K, MEP, NG>`): a list of
//! operations on a growing list of variables. The same text is interpreted by the Lean model
//! (`MidnightZK.Model.C05.Chip`), which must reproduce limb values, limb bounds and verdict.
use std::cell::RefCell;

use midnight_circuits::ComposableChip;

use ff::Field;
use midnight_circuits::{
    field::{
        decomposition::chip::{P2RDecompositionChip, P2RDecompositionConfig},
        foreign::{nb_field_chip_columns, params::FieldEmulationParams, FieldChip, FieldChipConfig},
        AssignedNative, NativeChip, NativeGadget,
    },
    instructions::{
        ArithInstructions, AssertionInstructions, AssignmentInstructions, ControlFlowInstructions,
        ConversionInstructions, DecompositionInstructions, EqualityInstructions,
        PublicInputInstructions, ZeroInstructions,
    },
    testing_utils::FromScratch,
    types::{AssignedBit, AssignedByte, AssignedField, InnerValue, Instantiable},
    CircuitField,
};
use midnight_proofs::{
    circuit::{Layouter, SimpleFloorPlanner, Value},
    plonk::{Circuit, ConstraintSystem, Error},
};
use num_bigint::{BigInt as BI, BigUint};
use num_traits::{One, Zero};

use crate::sets::MEP;

/// The native gadget of the repository's tests (used for `configure` / table loading).
pub type NG0<F> = NativeGadget<F, P2RDecompositionChip<F>, NativeChip<F>>;
/// The native gadget the programs run on: the same `NativeGadget` and `NativeChip`, with the
/// real decomposition chip behind the transparent logging wrapper `trace::LogDecomp`.
pub type NG<F> = NativeGadget<F, crate::trace::LogDecomp<F>, NativeChip<F>>;

/// `NG0::new_from_scratch` with the decomposition chip wrapped (same `max_bit_len = 8`).
/// The second component loads the lookup table of the decomposition chip in use (the table
/// holds the tags that chip queried).
pub fn new_ng<F: CircuitField>(config: &P2RDecompositionConfig) -> (NG<F>, Loader<F>) {
    let native_chip = NG0::<F>::new_from_scratch(config).native_chip;
    let decomp = P2RDecompositionChip::<F>::new(config, &8);
    (NativeGadget::new(crate::trace::LogDecomp { inner: decomp.clone() }, native_chip), Loader { decomp })
}

pub struct Loader<F: CircuitField> {
    decomp: P2RDecompositionChip<F>,
}

impl<F: CircuitField> Loader<F> {
    /// `NativeGadget::load_from_scratch` (the native chip has nothing to load).
    pub fn load_from_scratch(&self, layouter: &mut impl Layouter<F>) -> Result<(), Error> {
        self.decomp.load(layouter)
    }
}
pub type Chip<F, K> = FieldChip<F, K, MEP, NG<F>>;
pub type AF<F, K> = AssignedField<F, K, MEP>;

#[derive(Clone, Debug)]
pub struct Op {
    pub name: &'static str,
    pub args: Vec<String>,
}

pub fn op(name: &'static str, args: &[String]) -> Op {
    Op { name, args: args.to_vec() }
}

#[macro_export]
macro_rules! fop {
    ($name:expr $(, $a:expr)*) => {
        $crate::prog::Op { name: $name, args: vec![$(format!("{}", $a)),*] }
    };
}

pub fn render_prog(ops: &[Op]) -> String {
    ops.iter()
        .map(|o| {
            let mut s = o.name.to_string();
            for a in &o.args {
                s.push(' ');
                s.push_str(a);
            }
            s
        })
        .collect::<Vec<_>>()
        .join(" ; ")
}

pub fn k_from_big<K: CircuitField>(b: &BigUint) -> K {
    K::from_biguint(&(b % K::modulus())).unwrap()
}

fn parse_big(s: &str) -> BigUint {
    if let Some(h) = s.strip_prefix("0x") {
        BigUint::parse_bytes(h.as_bytes(), 16).unwrap()
    } else {
        BigUint::parse_bytes(s.as_bytes(), 10).unwrap()
    }
}

fn parse_opt_usize(s: &str) -> Option<usize> {
    if s == "-" {
        None
    } else {
        Some(s.parse().unwrap())
    }
}

/// A variable of a program.
#[derive(Clone, Debug)]
pub enum Var<F: CircuitField, K: CircuitField>
where
    MEP: FieldEmulationParams<F, K>,
{
    Fe(AF<F, K>),
    Bit(AssignedBit<F>),
    Bits(Vec<AssignedBit<F>>),
    Bytes(Vec<AssignedByte<F>>),
    Nats(Vec<AssignedNative<F>>),
    Unit,
}

/// What the real synthesis produced, op by op.
#[derive(Clone, Debug, Default)]
pub struct Outcome {
    /// rendered output of every executed op
    pub outs: Vec<String>,
    /// `Some("E")` / `Some("P")` when an op returned an error / panicked (program stops there)
    pub stopped: Option<String>,
    /// emulated-field value (as integer) of every `Fe` output, by op index
    pub values: Vec<Option<BigUint>>,
    /// bit/bits/bytes/nats values of the other outputs (little-endian list), by op index
    pub scalars: Vec<Option<Vec<BigUint>>>,
    /// number of H1-counted advice values before each op (and one entry after the last)
    pub adv_marks: Vec<usize>,
    /// public inputs pushed (in order)
    pub nb_public: usize,
    /// the error / panic message of the op that stopped the program
    pub error: Option<String>,
}

fn val<T: Clone>(v: Value<T>) -> Option<T> {
    let mut r = None;
    v.map(|x| r = Some(x));
    r
}

pub fn render_fe<F: CircuitField, K: CircuitField>(x: &AF<F, K>) -> String
where
    MEP: FieldEmulationParams<F, K>,
{
    let limbs: Vec<BI> = val(x.bigint_limbs()).unwrap_or_default();
    let bounds = x.verif_limb_bounds();
    format!(
        "F<{};{}>",
        mzkh::join(&limbs),
        bounds.iter().map(|(a, b)| format!("{a}:{b}")).collect::<Vec<_>>().join(",")
    )
}

#[derive(Clone, Debug)]
pub struct ProgConfig {
    ng: P2RDecompositionConfig,
    fc: FieldChipConfig,
}

impl ProgConfig {
    /// Indices of the advice columns `x_cols`, `z_cols` of the foreign-field chip.
    pub fn field_cols(&self) -> (Vec<usize>, Vec<usize>) {
        (
            self.fc.x_cols.iter().map(|c| c.index()).collect(),
            self.fc.z_cols.iter().map(|c| c.index()).collect(),
        )
    }
}

pub struct ProgCircuit<F: CircuitField, K: CircuitField> {
    pub ops: Vec<Op>,
    pub outcome: RefCell<Outcome>,
    _m: std::marker::PhantomData<(F, K)>,
}

impl<F: CircuitField, K: CircuitField> ProgCircuit<F, K> {
    pub fn new(ops: Vec<Op>) -> Self {
        ProgCircuit { ops, outcome: RefCell::new(Outcome::default()), _m: Default::default() }
    }
}

impl<F, K> ProgCircuit<F, K>
where
    F: CircuitField,
    K: CircuitField,
    MEP: FieldEmulationParams<F, K>,
{
    fn fe<'a>(vars: &'a [Var<F, K>], s: &str) -> &'a AF<F, K> {
        match &vars[s.parse::<usize>().unwrap()] {
            Var::Fe(x) => x,
            other => panic!("var {s}: field element expected, got {other:?}"),
        }
    }
    fn bit<'a>(vars: &'a [Var<F, K>], s: &str) -> &'a AssignedBit<F> {
        match &vars[s.parse::<usize>().unwrap()] {
            Var::Bit(x) => x,
            other => panic!("var {s}: bit expected, got {other:?}"),
        }
    }
    fn kc(s: &str) -> K {
        k_from_big::<K>(&parse_big(s))
    }

    /// One operation through the real chip.
    fn step(
        chip: &Chip<F, K>,
        ng: &NG<F>,
        layouter: &mut impl Layouter<F>,
        vars: &[Var<F, K>],
        o: &Op,
        nb_public: &mut usize,
    ) -> Result<Var<F, K>, Error> {
        let a = &o.args;
        Ok(match o.name {
            "in" => Var::Fe(chip.assign(layouter, Value::known(Self::kc(&a[0])))?),
            "fix" => Var::Fe(chip.assign_fixed(layouter, Self::kc(&a[0]))?),
            "inpi" => {
                *nb_public += MEP::NB_LIMBS as usize;
                Var::Fe(chip.assign_as_public_input(layouter, Value::known(Self::kc(&a[0])))?)
            }
            "inbit" => {
                let b: AssignedBit<F> = ng.assign(layouter, Value::known(a[0] == "1"))?;
                Var::Bit(b)
            }
            "inbytes" => {
                let bytes: Vec<u8> = if a[0] == "-" {
                    vec![]
                } else {
                    a[0].split(',').map(|x| x.parse().unwrap()).collect()
                };
                let v = bytes
                    .iter()
                    .map(|b| ng.assign(layouter, Value::known(*b)))
                    .collect::<Result<Vec<AssignedByte<F>>, Error>>()?;
                Var::Bytes(v)
            }
            "inbits" => {
                let v = a[0]
                    .chars()
                    .filter(|c| *c == '0' || *c == '1')
                    .map(|c| ng.assign(layouter, Value::known(c == '1')))
                    .collect::<Result<Vec<AssignedBit<F>>, Error>>()?;
                Var::Bits(v)
            }
            "add" => Var::Fe(chip.add(layouter, Self::fe(vars, &a[0]), Self::fe(vars, &a[1]))?),
            "sub" => Var::Fe(chip.sub(layouter, Self::fe(vars, &a[0]), Self::fe(vars, &a[1]))?),
            "neg" => Var::Fe(chip.neg(layouter, Self::fe(vars, &a[0]))?),
            "mul" => Var::Fe(chip.mul(layouter, Self::fe(vars, &a[0]), Self::fe(vars, &a[1]), None)?),
            "mulk" => Var::Fe(chip.mul(
                layouter,
                Self::fe(vars, &a[0]),
                Self::fe(vars, &a[1]),
                Some(Self::kc(&a[2])),
            )?),
            "div" => Var::Fe(chip.div(layouter, Self::fe(vars, &a[0]), Self::fe(vars, &a[1]))?),
            "inv" => Var::Fe(chip.inv(layouter, Self::fe(vars, &a[0]))?),
            "inv0" => Var::Fe(chip.inv0(layouter, Self::fe(vars, &a[0]))?),
            "addc" => Var::Fe(chip.add_constant(layouter, Self::fe(vars, &a[0]), Self::kc(&a[1]))?),
            "mulc" => Var::Fe(chip.mul_by_constant(layouter, Self::fe(vars, &a[0]), Self::kc(&a[1]))?),
            "lc" => {
                let terms: Vec<(K, AF<F, K>)> = if a[1] == "-" {
                    vec![]
                } else {
                    a[1].split(',')
                        .map(|t| {
                            let (k, v) = t.split_once(':').unwrap();
                            (Self::kc(k), Self::fe(vars, v).clone())
                        })
                        .collect()
                };
                Var::Fe(chip.linear_combination(layouter, &terms, Self::kc(&a[0]))?)
            }
            "iszero" => Var::Bit(chip.is_zero(layouter, Self::fe(vars, &a[0]))?),
            "iseq" => Var::Bit(chip.is_equal(layouter, Self::fe(vars, &a[0]), Self::fe(vars, &a[1]))?),
            "isneq" => {
                Var::Bit(chip.is_not_equal(layouter, Self::fe(vars, &a[0]), Self::fe(vars, &a[1]))?)
            }
            "iseqc" => {
                Var::Bit(chip.is_equal_to_fixed(layouter, Self::fe(vars, &a[0]), Self::kc(&a[1]))?)
            }
            "asserteq" => {
                chip.assert_equal(layouter, Self::fe(vars, &a[0]), Self::fe(vars, &a[1]))?;
                Var::Unit
            }
            "assertneq" => {
                chip.assert_not_equal(layouter, Self::fe(vars, &a[0]), Self::fe(vars, &a[1]))?;
                Var::Unit
            }
            "asserteqc" => {
                chip.assert_equal_to_fixed(layouter, Self::fe(vars, &a[0]), Self::kc(&a[1]))?;
                Var::Unit
            }
            "assertneqc" => {
                chip.assert_not_equal_to_fixed(layouter, Self::fe(vars, &a[0]), Self::kc(&a[1]))?;
                Var::Unit
            }
            "assertnz" => {
                chip.assert_non_zero(layouter, Self::fe(vars, &a[0]))?;
                Var::Unit
            }
            "select" => Var::Fe(chip.select(
                layouter,
                Self::bit(vars, &a[0]),
                Self::fe(vars, &a[1]),
                Self::fe(vars, &a[2]),
            )?),
            "bits" => Var::Bits(chip.assigned_to_le_bits(
                layouter,
                Self::fe(vars, &a[0]),
                parse_opt_usize(&a[1]),
                a[2] == "1",
            )?),
            "bytes" => Var::Bytes(chip.assigned_to_le_bytes(
                layouter,
                Self::fe(vars, &a[0]),
                parse_opt_usize(&a[1]),
            )?),
            "chunks" => Var::Nats(chip.assigned_to_le_chunks(
                layouter,
                Self::fe(vars, &a[0]),
                a[1].parse().unwrap(),
                parse_opt_usize(&a[2]),
            )?),
            "frombits" => match &vars[a[0].parse::<usize>().unwrap()] {
                Var::Bits(b) => Var::Fe(chip.assigned_from_le_bits(layouter, b)?),
                _ => panic!("frombits: bits expected"),
            },
            "frombytes" => match &vars[a[0].parse::<usize>().unwrap()] {
                Var::Bytes(b) => Var::Fe(chip.assigned_from_le_bytes(layouter, b)?),
                _ => panic!("frombytes: bytes expected"),
            },
            "bit2f" => Var::Fe(chip.convert(layouter, Self::bit(vars, &a[0]))?),
            "pi" => {
                *nb_public += MEP::NB_LIMBS as usize;
                chip.constrain_as_public_input(layouter, Self::fe(vars, &a[0]))?;
                Var::Unit
            }
            other => panic!("unknown op {other}"),
        })
    }
}

fn render_var<F: CircuitField, K: CircuitField>(v: &Var<F, K>) -> (String, Option<BigUint>, Option<Vec<BigUint>>)
where
    MEP: FieldEmulationParams<F, K>,
{
    match v {
        Var::Fe(x) => (render_fe(x), val(x.value()).map(|k| k.to_biguint()), None),
        Var::Bit(b) => {
            let bv = val(b.value()).unwrap_or(false);
            (format!("b{}", bv as u8), None, Some(vec![BigUint::from(bv as u8)]))
        }
        Var::Bits(bs) => {
            let v: Vec<bool> = bs.iter().map(|b| val(b.value()).unwrap_or(false)).collect();
            (
                format!("B<{}>", v.iter().map(|b| if *b { '1' } else { '0' }).collect::<String>()),
                None,
                Some(v.iter().map(|b| BigUint::from(*b as u8)).collect()),
            )
        }
        Var::Bytes(bs) => {
            let v: Vec<u8> = bs.iter().map(|b| val(b.value()).unwrap_or(0)).collect();
            (format!("Y<{}>", mzkh::join(&v)), None, Some(v.iter().map(|b| BigUint::from(*b)).collect()))
        }
        Var::Nats(ns) => {
            let v: Vec<BigUint> =
                ns.iter().map(|n| val(n.value().copied()).map(|f| f.to_biguint()).unwrap_or_default()).collect();
            (format!("N<{}>", mzkh::join(&v)), None, Some(v))
        }
        Var::Unit => ("U".to_string(), None, None),
    }
}

impl<F, K> Circuit<F> for ProgCircuit<F, K>
where
    F: CircuitField,
    K: CircuitField,
    MEP: FieldEmulationParams<F, K>,
{
    type Config = ProgConfig;
    type FloorPlanner = SimpleFloorPlanner;
    type Params = ();

    fn without_witnesses(&self) -> Self {
        unreachable!()
    }

    fn configure(meta: &mut ConstraintSystem<F>) -> Self::Config {
        let committed_instance_column = meta.instance_column();
        let instance_column = meta.instance_column();
        let constants_column = meta.fixed_column();
        meta.enable_constant(constants_column);
        let ng = NG0::<F>::configure_from_scratch(meta, &[committed_instance_column, instance_column]);
        let advice_cols = (0..nb_field_chip_columns::<F, K, MEP>())
            .map(|_| meta.advice_column())
            .collect::<Vec<_>>();
        let fc = Chip::<F, K>::configure(meta, &advice_cols);
        ProgConfig { ng, fc }
    }

    fn synthesize(&self, config: Self::Config, mut layouter: impl Layouter<F>) -> Result<(), Error> {
        let (ng, ng0) = new_ng::<F>(&config.ng);
        let chip = Chip::<F, K>::new(&config.fc, &ng);
        crate::trace::reset();
        let mut vars: Vec<Var<F, K>> = vec![];
        let mut out = Outcome::default();
        for (oi, o) in self.ops.iter().enumerate() {
            crate::trace::set_op(oi);
            out.adv_marks.push(midnight_proofs::circuit::verif_hooks::counter::<F>());
            let r = mzkh::catch(|| Self::step(&chip, &ng, &mut layouter, &vars, o, &mut out.nb_public));
            match r {
                Err(p) => {
                    out.stopped = Some("P".into());
                    out.error = Some(p);
                    break;
                }
                Ok(Err(e)) => {
                    out.stopped = Some("E".into());
                    out.error = Some(format!("{e:?}"));
                    break;
                }
                Ok(Ok(v)) => {
                    let (s, value, sc) = render_var(&v);
                    out.outs.push(s);
                    out.values.push(value);
                    out.scalars.push(sc);
                    vars.push(v);
                }
            }
        }
        out.adv_marks.push(midnight_proofs::circuit::verif_hooks::counter::<F>());
        let stopped = out.stopped.is_some();
        *self.outcome.borrow_mut() = out;
        if stopped {
            // an op failed (possibly inside a region): the layouter cannot be used any more
            return Err(Error::Synthesis("program stopped".into()));
        }
        crate::trace::set_op(self.ops.len());
        ng0.load_from_scratch(&mut layouter)
    }
}

/// Off-circuit public-input encoding of an emulated element (`Instantiable::as_public_input`).
pub fn pi_encoding<F: CircuitField, K: CircuitField>(v: &BigUint) -> Vec<F>
where
    MEP: FieldEmulationParams<F, K>,
{
    AF::<F, K>::as_public_input(&k_from_big::<K>(v))
}

/// Reference semantics over `BigUint` arithmetic modulo `m`: the expected value of every
/// output and whether the program is satisfiable (every assertion true, no division by zero,
/// every decomposition fits).
#[derive(Clone, Debug)]
pub enum RVal {
    Fe(BigUint),
    Scal(Vec<BigUint>),
    Unit,
}

pub struct Reference {
    pub vals: Vec<RVal>,
    pub sat: bool,
    pub public: Vec<BigUint>,
}

fn inv_mod(a: &BigUint, m: &BigUint) -> BigUint {
    a.modpow(&(m - BigUint::from(2u8)), m)
}

pub fn reference(m: &BigUint, num_bits: usize, ops: &[Op]) -> Reference {
    let mut vals: Vec<RVal> = vec![];
    let mut sat = true;
    let mut public = vec![];
    let fe = |vals: &Vec<RVal>, s: &str| -> BigUint {
        match &vals[s.parse::<usize>().unwrap()] {
            RVal::Fe(x) => x.clone(),
            _ => panic!("ref: fe expected"),
        }
    };
    let sc = |vals: &Vec<RVal>, s: &str| -> Vec<BigUint> {
        match &vals[s.parse::<usize>().unwrap()] {
            RVal::Scal(x) => x.clone(),
            _ => panic!("ref: scalars expected"),
        }
    };
    let kc = |s: &str| parse_big(s) % m;
    let bit = |b: bool| RVal::Scal(vec![BigUint::from(b as u8)]);
    for o in ops {
        let a = &o.args;
        let v = match o.name {
            "in" | "fix" => RVal::Fe(kc(&a[0])),
            "inpi" => {
                public.push(kc(&a[0]));
                RVal::Fe(kc(&a[0]))
            }
            "inbit" => bit(a[0] == "1"),
            "inbytes" => RVal::Scal(if a[0] == "-" {
                vec![]
            } else {
                a[0].split(',').map(|x| BigUint::from(x.parse::<u8>().unwrap())).collect()
            }),
            "inbits" => RVal::Scal(
                a[0].chars().filter(|c| *c == '0' || *c == '1').map(|c| BigUint::from((c == '1') as u8)).collect(),
            ),
            "add" => RVal::Fe((fe(&vals, &a[0]) + fe(&vals, &a[1])) % m),
            "sub" => RVal::Fe((fe(&vals, &a[0]) + m - fe(&vals, &a[1])) % m),
            "neg" => RVal::Fe((m - fe(&vals, &a[0])) % m),
            "mul" => RVal::Fe((fe(&vals, &a[0]) * fe(&vals, &a[1])) % m),
            "mulk" => RVal::Fe((fe(&vals, &a[0]) * fe(&vals, &a[1]) * kc(&a[2])) % m),
            "div" => {
                let y = fe(&vals, &a[1]);
                if y.is_zero() {
                    sat = false;
                    RVal::Fe(BigUint::zero())
                } else {
                    RVal::Fe((fe(&vals, &a[0]) * inv_mod(&y, m)) % m)
                }
            }
            "inv" => {
                let y = fe(&vals, &a[0]);
                if y.is_zero() {
                    sat = false;
                    RVal::Fe(BigUint::zero())
                } else {
                    RVal::Fe(inv_mod(&y, m))
                }
            }
            "inv0" => {
                let y = fe(&vals, &a[0]);
                RVal::Fe(if y.is_zero() { y } else { inv_mod(&y, m) })
            }
            "addc" => RVal::Fe((fe(&vals, &a[0]) + kc(&a[1])) % m),
            "mulc" => RVal::Fe((fe(&vals, &a[0]) * kc(&a[1])) % m),
            "lc" => {
                let mut acc = kc(&a[0]);
                if a[1] != "-" {
                    for t in a[1].split(',') {
                        let (k, v) = t.split_once(':').unwrap();
                        acc = (acc + kc(k) * fe(&vals, v)) % m;
                    }
                }
                RVal::Fe(acc)
            }
            "iszero" => bit(fe(&vals, &a[0]).is_zero()),
            "iseq" => bit(fe(&vals, &a[0]) == fe(&vals, &a[1])),
            "isneq" => bit(fe(&vals, &a[0]) != fe(&vals, &a[1])),
            "iseqc" => bit(fe(&vals, &a[0]) == kc(&a[1])),
            "asserteq" => {
                sat &= fe(&vals, &a[0]) == fe(&vals, &a[1]);
                RVal::Unit
            }
            "assertneq" => {
                sat &= fe(&vals, &a[0]) != fe(&vals, &a[1]);
                RVal::Unit
            }
            "asserteqc" => {
                sat &= fe(&vals, &a[0]) == kc(&a[1]);
                RVal::Unit
            }
            "assertneqc" => {
                sat &= fe(&vals, &a[0]) != kc(&a[1]);
                RVal::Unit
            }
            "assertnz" => {
                sat &= !fe(&vals, &a[0]).is_zero();
                RVal::Unit
            }
            "select" => {
                let b = sc(&vals, &a[0])[0].is_one();
                RVal::Fe(if b { fe(&vals, &a[1]) } else { fe(&vals, &a[2]) })
            }
            "bits" => {
                let x = fe(&vals, &a[0]);
                let n = parse_opt_usize(&a[1]).unwrap_or(num_bits);
                if x.bits() as usize > n {
                    sat = false;
                }
                RVal::Scal((0..n).map(|i| BigUint::from(x.bit(i as u64) as u8)).collect())
            }
            "bytes" => {
                let x = fe(&vals, &a[0]);
                let n = parse_opt_usize(&a[1]).unwrap_or(num_bits.div_ceil(8));
                if x.bits() as usize > 8 * n {
                    sat = false;
                }
                let mut bytes = x.to_bytes_le();
                bytes.resize(n.max(bytes.len()), 0);
                RVal::Scal(bytes[..n].iter().map(|b| BigUint::from(*b)).collect())
            }
            "chunks" => {
                let x = fe(&vals, &a[0]);
                let w: usize = a[1].parse().unwrap();
                let n = parse_opt_usize(&a[2]);
                let mut out = vec![];
                let mut rest = x.clone();
                let count = n.unwrap_or(usize::MAX);
                let mask = (BigUint::one() << w) - BigUint::one();
                let mut i = 0;
                while i < count && (n.is_some() || !rest.is_zero() || i == 0) {
                    out.push(&rest & &mask);
                    rest >>= w;
                    i += 1;
                }
                if n.is_some() && !rest.is_zero() {
                    sat = false;
                }
                // without an explicit count the chip fixes the number of chunks itself; the
                // harness compares only the represented value then
                RVal::Scal(out)
            }
            "frombits" => {
                let b = sc(&vals, &a[0]);
                let mut acc = BigUint::zero();
                for (i, x) in b.iter().enumerate() {
                    acc += x << i;
                }
                RVal::Fe(acc % m)
            }
            "frombytes" => {
                let b = sc(&vals, &a[0]);
                let mut acc = BigUint::zero();
                for (i, x) in b.iter().enumerate() {
                    acc += x << (8 * i);
                }
                RVal::Fe(acc % m)
            }
            "bit2f" => RVal::Fe(sc(&vals, &a[0])[0].clone()),
            "pi" => {
                public.push(fe(&vals, &a[0]));
                RVal::Unit
            }
            other => panic!("ref: unknown op {other}"),
        };
        vals.push(v);
    }
    Reference { vals, sat, public }
}

pub fn _unused<F: Field>() {}
