//! Correspondence harness of property C05 (foreign-field and big-integer gadgets).
mod sets;
mod bounds;

fn main() {
    let mut ctx = mzkh::Ctx::from_args("C05");
    bounds::run(&mut ctx);
    ctx.finish();
}
