//! Correspondence harness of property C05 (stub).
use mzkh::Ctx;

fn main() {
    let ctx = Ctx::from_args("C05");
    ctx.finish();
}
