//! Correspondence harness of property C05 (foreign-field and big-integer gadgets).
mod bounds;
mod fieldrun;
mod prog;
mod rec;
mod sets;

fn main() {
    let mut ctx = mzkh::Ctx::from_args("C05");
    bounds::run(&mut ctx);
    macro_rules! one {
        ($name:expr, $F:ty, $K:ty) => {
            fieldrun::run_set::<$F, $K>(&mut ctx, $name);
        };
    }
    for_each_circuit_set!(one);
    ctx.finish();
}
