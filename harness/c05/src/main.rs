//! Correspondence harness of property C05 (foreign-field and big-integer gadgets).
mod bigrun;
mod bounds;
mod fieldrun;
mod gates;
mod prog;
mod rec;
mod sets;
mod trace;

/// `C05_PROG="<set> ; <program>" h-c05 …`: run one field-chip program (replay / debugging).
fn single(prog: &str) {
    let (set, rest) = prog.split_once(" ; ").expect("set ; program");
    let ops: Vec<prog::Op> = rest
        .split(" ; ")
        .map(|t| {
            let mut w = t.split_whitespace();
            let name: &'static str = Box::leak(w.next().unwrap().to_string().into_boxed_str());
            prog::Op { name, args: w.map(|x| x.to_string()).collect() }
        })
        .collect();
    macro_rules! one {
        ($name:expr, $F:ty, $K:ty) => {
            if set.trim() == $name {
                let s = fieldrun::set_info::<$F, $K>($name);
                let r = prog::reference(&s.m, s.num_bits, &ops);
                let public: Vec<$F> = r.public.iter().flat_map(|v| prog::pi_encoding::<$F, $K>(v)).collect();
                let run = fieldrun::mock::<$F, $K>(&ops, &public, 11);
                println!("reference sat: {}", r.sat);
                println!("verdict: {:?} (k = {})", run.verdict, run.k);
                for (i, o) in run.outcome.outs.iter().enumerate() {
                    println!("  op {i} [{} {}] -> {o}", ops[i].name, ops[i].args.join(" "));
                }
                println!("stopped: {:?}", run.outcome.stopped);
                if let Some(t) = fieldrun::trace_of::<$F, $K>(&ops) {
                    for (i, o) in t.iter().enumerate() {
                        println!("  trace {i}: {o}");
                    }
                }
                if std::env::var("C05_REGIONS").is_ok() {
                    if let Some(rec) = fieldrun::record::<$F, $K>(&ops) {
                        let mut counts = vec![0usize; rec.regions.len()];
                        for c in &rec.cells {
                            counts[c.region] += 1;
                        }
                        for (i, r) in rec.regions.iter().enumerate() {
                            println!("  region {i}: {} cells={} sel={}", r.name, counts[i], r.selectors.len());
                        }
                    }
                }
                if let Some(p) = &run.prover {
                    if let Err(es) = p.verify() {
                        for e in es.iter().take(5) {
                            println!("  failure: {e:?}");
                        }
                    }
                }
            }
        };
    }
    for_each_circuit_set!(one);
}

/// Quick-sized generation: the `quick` tier, and the `search` tier (which differs by its seed
/// stream and by sweeping every tamper kind).
pub fn small(ctx: &mzkh::Ctx) -> bool {
    ctx.quick() || ctx.search()
}

fn main() {
    if let Ok(p) = std::env::var("C05_BIG") {
        bigrun::single(&p);
        return;
    }
    if let Ok(p) = std::env::var("C05_PROG") {
        single(&p);
        return;
    }
    let mut ctx = mzkh::Ctx::from_args("C05");
    bounds::run(&mut ctx);
    let only = std::env::var("C05_ONLY").ok();
    macro_rules! one {
        ($name:expr, $F:ty, $K:ty) => {
            if only.is_none() || only.as_deref() == Some("field") {
                fieldrun::run_set::<$F, $K>(&mut ctx, $name);
            }
        };
    }
    for_each_circuit_set!(one);
    if std::env::var("C05_ONLY").map(|v| v == "big").unwrap_or(true) {
        bigrun::run(&mut ctx);
    }
    ctx.finish();
}
