//! The compiled-in `FieldEmulationParams` sets (no `dev-curves`), in the source order of
//! `circuits/src/field/foreign/params.rs`, under the names the translator gives them.
use midnight_circuits::field::foreign::params::MultiEmulationParams;
use midnight_curves::{bls12_381, curve25519, k256};

pub type MEP = MultiEmulationParams;
pub type BlsScalar = midnight_curves::Fq;
pub type BlsBase = bls12_381::Fp;
pub type SecpBase = k256::Fp;
pub type SecpScalar = k256::Fq;
pub type C25519Base = curve25519::Fp;
pub type C25519Scalar = curve25519::Scalar;

/// Calls `$m!(name, F, K)` for every compiled-in set.
#[macro_export]
macro_rules! for_each_set {
    ($m:ident) => {
        $m!("secpBase_over_blsBase", $crate::sets::BlsBase, $crate::sets::SecpBase);
        $m!("secpBase_over_blsScalar", $crate::sets::BlsScalar, $crate::sets::SecpBase);
        $m!("secpScalar_over_blsBase", $crate::sets::BlsBase, $crate::sets::SecpScalar);
        $m!("secpScalar_over_blsScalar", $crate::sets::BlsScalar, $crate::sets::SecpScalar);
        $m!("blsBase_over_blsBase", $crate::sets::BlsBase, $crate::sets::BlsBase);
        $m!("blsBase_over_blsScalar", $crate::sets::BlsScalar, $crate::sets::BlsBase);
        $m!("c25519Base_over_blsScalar", $crate::sets::BlsScalar, $crate::sets::C25519Base);
        $m!("c25519Scalar_over_blsScalar", $crate::sets::BlsScalar, $crate::sets::C25519Scalar);
    };
}

/// The sets whose native field is the BLS12-381 scalar field (the circuit field of the stack).
#[macro_export]
macro_rules! for_each_circuit_set {
    ($m:ident) => {
        $m!("secpBase_over_blsScalar", $crate::sets::BlsScalar, $crate::sets::SecpBase);
        $m!("secpScalar_over_blsScalar", $crate::sets::BlsScalar, $crate::sets::SecpScalar);
        $m!("blsBase_over_blsScalar", $crate::sets::BlsScalar, $crate::sets::BlsBase);
        $m!("c25519Base_over_blsScalar", $crate::sets::BlsScalar, $crate::sets::C25519Base);
        $m!("c25519Scalar_over_blsScalar", $crate::sets::BlsScalar, $crate::sets::C25519Scalar);
    };
}
