//! What the transcript hashes really absorb.
//!
//! `RecBlake` / `RecPoseidon` wrap the two real transcript hash states (`Blake2bState`,
//! `PoseidonState<Fq>`) and log the exact `Input` handed to `TranscriptHash::absorb` and the exact
//! `Output` of `TranscriptHash::squeeze`. The real `CircuitTranscript` and the real `prepare` run on
//! top of them, so the log is what the verifier absorbed for the proof at hand.
//!
//! The framing that happens INSIDE the hash states (BLAKE2b: prefix bytes, key, digest length;
//! Poseidon: queue, length padding, rate, capacity) cannot be observed from outside, so it is
//! re-derived: an independent BLAKE2b state (`blake2b_simd` used directly) / an independent sponge
//! over the public `permutation_cpu` is fed the framed stream and must reproduce EVERY logged
//! squeeze output. The framed stream is the implementation's answer; `MISMATCH` otherwise.
//! (Deliberately tight: a changed prefix constant, key, padding rule or rate changes the answer.)

use std::cell::RefCell;
use std::io::{self, Read};

use blake2b_simd::State as Blake2bState;
use ff::{Field, PrimeField};
use group::{prime::PrimeCurveAffine, Curve, GroupEncoding};
use midnight_circuits::hash::poseidon::{permutation_cpu, round_skips::PreComputedRoundCPU, PoseidonState};
use midnight_curves::{Fq as F, G1Affine, G1Projective};
use midnight_proofs::transcript::{Hashable, Sampleable, TranscriptHash};
use num_bigint::BigUint;

#[derive(Clone, Debug)]
pub enum HEv {
    AbsorbB(Vec<u8>),
    SqueezeB(Vec<u8>),
    AbsorbP(Vec<F>),
    SqueezeP(F),
}

thread_local! {
    static HLOG: RefCell<Vec<HEv>> = const { RefCell::new(Vec::new()) };
}

pub fn take_hlog() -> Vec<HEv> {
    HLOG.with(|l| std::mem::take(&mut *l.borrow_mut()))
}

fn hpush(e: HEv) {
    HLOG.with(|l| l.borrow_mut().push(e));
}

#[derive(Clone)]
pub struct RecBlake(Blake2bState);

impl TranscriptHash for RecBlake {
    type Input = Vec<u8>;
    type Output = Vec<u8>;

    fn init() -> Self {
        RecBlake(<Blake2bState as TranscriptHash>::init())
    }

    fn absorb(&mut self, input: &Vec<u8>) {
        hpush(HEv::AbsorbB(input.clone()));
        TranscriptHash::absorb(&mut self.0, input)
    }

    fn squeeze(&mut self) -> Vec<u8> {
        let out = TranscriptHash::squeeze(&mut self.0);
        hpush(HEv::SqueezeB(out.clone()));
        out
    }
}

#[derive(Clone)]
pub struct RecPoseidon(PoseidonState<F>);

impl TranscriptHash for RecPoseidon {
    type Input = Vec<F>;
    type Output = F;

    fn init() -> Self {
        RecPoseidon(<PoseidonState<F> as TranscriptHash>::init())
    }

    fn absorb(&mut self, input: &Vec<F>) {
        hpush(HEv::AbsorbP(input.clone()));
        TranscriptHash::absorb(&mut self.0, input)
    }

    fn squeeze(&mut self) -> F {
        let out = TranscriptHash::squeeze(&mut self.0);
        hpush(HEv::SqueezeP(out));
        out
    }
}

macro_rules! delegate_hashable {
    ($rec:ty, $real:ty, $t:ty, $inp:ty) => {
        impl Hashable<$rec> for $t {
            fn to_input(&self) -> $inp {
                <$t as Hashable<$real>>::to_input(self)
            }
            fn to_bytes(&self) -> Vec<u8> {
                <$t as Hashable<$real>>::to_bytes(self)
            }
            fn read(buffer: &mut impl Read) -> io::Result<Self> {
                <$t as Hashable<$real>>::read(buffer)
            }
        }
    };
}

delegate_hashable!(RecBlake, Blake2bState, F, Vec<u8>);
delegate_hashable!(RecBlake, Blake2bState, G1Projective, Vec<u8>);
delegate_hashable!(RecPoseidon, PoseidonState<F>, F, Vec<F>);
delegate_hashable!(RecPoseidon, PoseidonState<F>, G1Projective, Vec<F>);

impl Sampleable<RecBlake> for F {
    fn sample(out: Vec<u8>) -> Self {
        <F as Sampleable<Blake2bState>>::sample(out)
    }
}

impl Sampleable<RecPoseidon> for F {
    fn sample(out: F) -> Self {
        <F as Sampleable<PoseidonState<F>>>::sample(out)
    }
}

pub fn hex(b: &[u8]) -> String {
    if b.is_empty() {
        "-".into()
    } else {
        b.iter().map(|x| format!("{x:02x}")).collect()
    }
}

fn fe_list(v: &[F]) -> String {
    if v.is_empty() {
        "-".into()
    } else {
        v.iter().map(mzkh::fe_hex).collect::<Vec<_>>().join(",")
    }
}

/// BLAKE2b log → framed stream + squeeze offsets, checked against an independent BLAKE2b state.
pub fn blake_answer(log: &[HEv]) -> String {
    let mut st = blake2b_simd::Params::new().hash_length(64).key(b"Domain separator for transcript").to_state();
    let mut stream: Vec<u8> = vec![];
    let mut offs: Vec<usize> = vec![];
    for (i, e) in log.iter().enumerate() {
        match e {
            HEv::AbsorbB(b) => {
                st.update(&[1u8]);
                st.update(b);
                stream.push(1);
                stream.extend_from_slice(b);
            }
            HEv::SqueezeB(out) => {
                st.update(&[0u8]);
                stream.push(0);
                offs.push(stream.len());
                if st.finalize().as_bytes() != &out[..] {
                    return format!("MISMATCH blake squeeze at event {i}");
                }
            }
            _ => return "MISMATCH foreign event in a blake log".into(),
        }
    }
    format!("{} sq={}", hex(&stream), mzkh::join(&offs))
}

/// Poseidon log → absorbed blocks (+ residual queue), checked against an independent sponge.
pub fn poseidon_answer(log: &[HEv]) -> String {
    const RATE: usize = 2;
    let pre = PreComputedRoundCPU::<F>::init();
    let mut reg = [F::ZERO, F::ZERO, F::from_u128(1u128 << 64)];
    let mut queue: Vec<F> = vec![];
    let mut sq = 0usize;
    let mut blocks: Vec<String> = vec![];
    for (i, e) in log.iter().enumerate() {
        match e {
            HEv::AbsorbP(v) => {
                queue.extend_from_slice(v);
                sq = 0;
            }
            HEv::SqueezeP(out) => {
                let expected = if sq > 0 {
                    let o = reg[sq % RATE];
                    sq = (sq + 1) % RATE;
                    o
                } else {
                    queue.push(F::from(queue.len() as u64));
                    for chunk in queue.chunks(RATE) {
                        for (r, v) in reg.iter_mut().zip(chunk.iter()) {
                            *r += v;
                        }
                        permutation_cpu(&pre, &mut reg);
                    }
                    blocks.push(fe_list(&queue));
                    queue.clear();
                    sq = 1 % RATE;
                    reg[0]
                };
                if expected != *out {
                    return format!("MISMATCH poseidon squeeze at event {i}");
                }
            }
            _ => return "MISMATCH foreign event in a poseidon log".into(),
        }
    }
    blocks.push(fe_list(&queue));
    blocks.join("|")
}

pub fn be_big_hex(b: &[u8]) -> String {
    format!("0x{}", BigUint::from_bytes_be(b).to_str_radix(16))
}

/// `inf` or `some 0x<x> 0x<y>` (affine coordinates through the public accessors).
pub fn point_render(p: &G1Projective) -> String {
    let a: G1Affine = p.to_affine();
    if bool::from(a.is_identity()) {
        "inf".into()
    } else {
        format!("some {} {}", be_big_hex(&a.x().to_bytes_be()), be_big_hex(&a.y().to_bytes_be()))
    }
}

/// `x:y` (hex) or `inf`.
pub fn point_coords(p: &G1Projective) -> String {
    let a: G1Affine = p.to_affine();
    if bool::from(a.is_identity()) {
        "inf".into()
    } else {
        format!("{}:{}", be_big_hex(&a.x().to_bytes_be()), be_big_hex(&a.y().to_bytes_be()))
    }
}

pub fn point_compressed_hex(p: &G1Projective) -> String {
    hex(p.to_affine().to_bytes().as_ref())
}

/// Both point readers of the transcript on one 48-byte string.
pub fn point_reads(b: &[u8]) -> (String, String) {
    let mut rd = b;
    let a = match <G1Projective as Hashable<Blake2bState>>::read(&mut rd) {
        Ok(p) => point_render(&p),
        Err(_) => "none".into(),
    };
    let mut rd = b;
    let c = match <G1Projective as Hashable<PoseidonState<F>>>::read(&mut rd) {
        Ok(p) => point_render(&p),
        Err(_) => "none".into(),
    };
    (a, c)
}

/// `to_input` of a point under both hashes: `<limbs> <compressed bytes>`.
pub fn point_inputs(p: &G1Projective) -> String {
    let limbs = <G1Projective as Hashable<PoseidonState<F>>>::to_input(p);
    let bytes = <G1Projective as Hashable<Blake2bState>>::to_input(p);
    format!("{} {}", fe_list(&limbs), hex(&bytes))
}

pub fn scalar_input_consistent(v: &F) -> bool {
    <F as Hashable<Blake2bState>>::to_input(v) == v.to_repr().as_ref().to_vec()
        && <F as Hashable<Blake2bState>>::to_bytes(v) == v.to_repr().as_ref().to_vec()
        && <F as Hashable<PoseidonState<F>>>::to_input(v) == vec![*v]
        && <F as Hashable<PoseidonState<F>>>::to_bytes(v) == v.to_repr().as_ref().to_vec()
}
