//! Every verification ENTRY POINT on every mutant class.
//!
//! The property quantifies over "verification", not over one function. Entry points exercised here on real
//! proofs of small `zk_stdlib` relations (both transcript hashes):
//!
//!   `raw`      midnight-proofs `prepare` + `assert_empty` + `Guard::verify` (what `BlstPLONK::verify` does);
//!   `verify`   `midnight_zk_stdlib::verify::<R, H>`;
//!   `batch1`   `midnight_zk_stdlib::batch_verify::<H>` on the singleton batch;
//!   `batch3`   `midnight_zk_stdlib::batch_verify::<H>` on a batch of three with the mutant at position 0 / 1 / 2
//!              (the other two members honest);
//!   `guards`   `prepare` + `assert_empty` per member, then `Guard::batch_verify` (midnight-proofs) on three guards.
//!
//! Oracle: honest statements are accepted by all of them; every mutant is rejected (`Err`, never a panic) by all of
//! them — hence they agree. Correspondence lines `verifyparse` / `batchparse`: the parsing-level verdict of
//! `verify` / `batch_verify` (and the index of the first failing member, found by running `batch_verify` on the
//! prefixes of the batch) against the model `C03.verifyParse` / `C03.batchFirstBad`, whose exhaustion check is taken
//! from the generated list of `assert_empty` call sites.

use blake2b_simd::State as Blake2bState;
use ff::{Field, PrimeField};
use group::{prime::PrimeCurveAffine, Curve, Group, GroupEncoding};
use midnight_circuits::{
    hash::poseidon::PoseidonState,
    instructions::{ArithInstructions, AssignmentInstructions, PublicInputInstructions},
};
use midnight_curves::{Bls12, Fq as F, G1Affine, G1Projective};
use midnight_proofs::{
    circuit::{Layouter, Value},
    plonk::{prepare, Error},
    poly::{
        commitment::Guard,
        kzg::{
            msm::DualMSM,
            params::{ParamsKZG, ParamsVerifierKZG},
            KZGCommitmentScheme,
        },
    },
    transcript::{CircuitTranscript, Hashable, Sampleable, Transcript, TranscriptHash},
};
use midnight_zk_stdlib::{MidnightCircuit, MidnightVK, Relation, ZkStdLib};
use mzkh::{
    recording::{take_log, RecordingTranscript},
    Ctx,
};
use rand::{Rng, SeedableRng};
use rand_chacha::ChaCha8Rng;
use serde_json::json;

use crate::absorb::hex;

type Scheme = KZGCommitmentScheme<Bls12>;

/// `(a + b, a·b + C)` as two public inputs; `C` is a circuit constant (one fixed cell / constant differs between
/// two values of `C`, nothing else).
#[derive(Clone, Default)]
pub struct RelS<const C: u64>;

impl<const C: u64> Relation for RelS<C> {
    type Instance = Vec<F>;
    type Witness = Vec<F>;
    fn format_instance(i: &Vec<F>) -> Result<Vec<F>, Error> {
        Ok(i.clone())
    }
    fn circuit(&self, s: &ZkStdLib, l: &mut impl Layouter<F>, _i: Value<Vec<F>>, w: Value<Vec<F>>) -> Result<(), Error> {
        let x = s.assign(l, w.clone().map(|w| w[0]))?;
        let y = s.assign(l, w.map(|w| w[1]))?;
        let a = s.add(l, &x, &y)?;
        let z = s.mul(l, &x, &y, None)?;
        let zc = s.add_constant(l, &z, F::from(C))?;
        s.constrain_as_public_input(l, &a)?;
        s.constrain_as_public_input(l, &zc)
    }
    fn write_relation<W: std::io::Write>(&self, _w: &mut W) -> std::io::Result<()> {
        Ok(())
    }
    fn read_relation<R: std::io::Read>(_r: &mut R) -> std::io::Result<Self> {
        Ok(Self)
    }
}

/// `(a − b, a·b)`: another circuit with the same number of public inputs.
#[derive(Clone, Default)]
pub struct RelT;

impl Relation for RelT {
    type Instance = Vec<F>;
    type Witness = Vec<F>;
    fn format_instance(i: &Vec<F>) -> Result<Vec<F>, Error> {
        Ok(i.clone())
    }
    fn circuit(&self, s: &ZkStdLib, l: &mut impl Layouter<F>, _i: Value<Vec<F>>, w: Value<Vec<F>>) -> Result<(), Error> {
        let x = s.assign(l, w.clone().map(|w| w[0]))?;
        let y = s.assign(l, w.map(|w| w[1]))?;
        let a = s.sub(l, &x, &y)?;
        let z = s.mul(l, &x, &y, None)?;
        s.constrain_as_public_input(l, &a)?;
        s.constrain_as_public_input(l, &z)
    }
    fn write_relation<W: std::io::Write>(&self, _w: &mut W) -> std::io::Result<()> {
        Ok(())
    }
    fn read_relation<R: std::io::Read>(_r: &mut R) -> std::io::Result<Self> {
        Ok(Self)
    }
}

pub fn shape_of_vk(vk: &MidnightVK) -> String {
    // same rendering as `mzkh::shape::shape_string` (which wants a proving key)
    let cs = vk.vk().cs();
    let q = |v: Vec<(usize, i32)>| if v.is_empty() { "-".to_string() } else { v.iter().map(|(c, r)| format!("{c}:{r}")).collect::<Vec<_>>().join(",") };
    format!(
        "ap={} cp={} aq={} iq={} fq={} nl={} nt={} pc={} deg={} bl={} k={}",
        mzkh::join(&cs.advice_column_phase()),
        mzkh::join(&cs.challenge_phase()),
        q(cs.advice_queries().iter().map(|(c, r)| (c.index(), r.0)).collect()),
        q(cs.instance_queries().iter().map(|(c, r)| (c.index(), r.0)).collect()),
        q(cs.fixed_queries().iter().map(|(c, r)| (c.index(), r.0)).collect()),
        cs.lookups().len(),
        cs.trashcans().len(),
        cs.permutation().get_columns().len(),
        cs.degree(),
        cs.blinding_factors(),
        vk.k()
    )
}

struct Set {
    vk: MidnightVK,
    vp: ParamsVerifierKZG<Bls12>,
    /// three honest (public inputs, proof)
    honest: Vec<(Vec<F>, Vec<u8>)>,
    /// keys of other circuits with the same number of public inputs: (class, key)
    other_vks: Vec<(&'static str, MidnightVK)>,
}

fn build<H: TranscriptHash>(seed: u64) -> Set
where
    F: Hashable<H> + Sampleable<H>,
    G1Projective: Hashable<H>,
{
    let rel = RelS::<7>;
    let k = MidnightCircuit::from_relation(&rel).min_k();
    let k2 = MidnightCircuit::from_relation(&RelT).min_k().max(MidnightCircuit::from_relation(&RelS::<8>).min_k());
    let big = ParamsKZG::<Bls12>::unsafe_setup(k.max(k2), ChaCha8Rng::seed_from_u64(0xC03_5125));
    let mut srs = big.clone();
    srs.downsize(k);
    let vk = midnight_zk_stdlib::setup_vk(&srs, &rel);
    let pk = midnight_zk_stdlib::setup_pk(&rel, &vk);
    let f = |v: u64| F::from(v);
    let honest = [(2u64, 3u64), (5, 7), (0, 9)]
        .iter()
        .enumerate()
        .map(|(j, (a, b))| {
            let inst = vec![f(a + b), f(a * b + 7)];
            let proof = midnight_zk_stdlib::prove::<RelS<7>, H>(&srs, &pk, &rel, &inst, vec![f(*a), f(*b)], ChaCha8Rng::seed_from_u64(seed + j as u64))
                .expect("honest zk_stdlib proof");
            (inst, proof)
        })
        .collect();
    let mut srs_t = big.clone();
    srs_t.downsize(MidnightCircuit::from_relation(&RelT).min_k());
    let vk_t = midnight_zk_stdlib::setup_vk(&srs_t, &RelT);
    let mut srs_c = big.clone();
    srs_c.downsize(MidnightCircuit::from_relation(&RelS::<8>).min_k());
    let vk_c = midnight_zk_stdlib::setup_vk(&srs_c, &RelS::<8>);
    Set { vk, vp: srs.verifier_params(), honest, other_vks: vec![("other-circuit", vk_t), ("other-constant", vk_c)] }
}

/// One member of a verification request.
#[derive(Clone)]
struct Req {
    pi: Vec<F>,
    proof: Vec<u8>,
    committed: Option<G1Affine>,
}

fn raw_guard<H: TranscriptHash>(vk: &MidnightVK, r: &Req) -> Option<DualMSM<Bls12>>
where
    F: Hashable<H> + Sampleable<H>,
    G1Projective: Hashable<H>,
{
    let mut t = CircuitTranscript::<H>::init_from_bytes(&r.proof);
    let com: G1Projective = r.committed.map(|c| c.into()).unwrap_or(G1Projective::identity());
    let g = prepare::<F, Scheme, CircuitTranscript<H>>(vk.vk(), &[&[com]], &[&[&r.pi]], &mut t).ok()?;
    t.assert_empty().ok()?;
    Some(g)
}

/// Verdicts of all entry points for the mutant `m` under key `vk` at position `pos` of a batch whose other members
/// are `honest`. `Ok(true)` = accepted.
fn run_all<H: TranscriptHash>(set: &Set, vk: &MidnightVK, m: &Req, pos: usize, with_batch3: bool) -> Vec<(String, Result<bool, String>)>
where
    F: Hashable<H> + Sampleable<H>,
    G1Projective: Hashable<H>,
{
    let mut out = vec![];
    out.push(("raw".to_string(), mzkh::catch(|| raw_guard::<H>(vk, m).map(|g| g.verify(&set.vp).is_ok()).unwrap_or(false))));
    out.push((
        "verify".to_string(),
        mzkh::catch(|| midnight_zk_stdlib::verify::<RelS<7>, H>(&set.vp, vk, &m.pi, m.committed, &m.proof).is_ok()),
    ));
    if m.committed.is_none() {
        out.push((
            "batch1".to_string(),
            mzkh::catch(|| midnight_zk_stdlib::batch_verify::<H>(&set.vp, std::slice::from_ref(vk), std::slice::from_ref(&m.pi), std::slice::from_ref(&m.proof)).is_ok()),
        ));
        if with_batch3 {
            let mut vks = vec![set.vk.clone(); 3];
            vks[pos] = vk.clone();
            let mut pis: Vec<Vec<F>> = set.honest.iter().map(|h| h.0.clone()).collect();
            let mut proofs: Vec<Vec<u8>> = set.honest.iter().map(|h| h.1.clone()).collect();
            pis[pos] = m.pi.clone();
            proofs[pos] = m.proof.clone();
            out.push((format!("batch3@{pos}"), mzkh::catch(|| midnight_zk_stdlib::batch_verify::<H>(&set.vp, &vks, &pis, &proofs).is_ok())));
            out.push((
                format!("guards@{pos}"),
                mzkh::catch(|| {
                    let mut gs = vec![];
                    for j in 0..3 {
                        let r = Req { pi: pis[j].clone(), proof: proofs[j].clone(), committed: None };
                        match raw_guard::<H>(&vks[j], &r) {
                            Some(g) => gs.push(g),
                            None => return false,
                        }
                    }
                    let ps = vec![&set.vp; 3];
                    <DualMSM<Bls12> as Guard<F, Scheme>>::batch_verify(gs.into_iter(), ps.into_iter()).is_ok()
                }),
            ));
        }
    }
    out
}

fn layout_of<H: TranscriptHash>(set: &Set, r: &Req) -> Vec<(usize, char)>
where
    F: Hashable<H> + Sampleable<H>,
    G1Projective: Hashable<H>,
{
    take_log();
    let mut t = RecordingTranscript::<H>::init_from_bytes(&r.proof);
    let _ = prepare::<F, Scheme, _>(set.vk.vk(), &[&[G1Projective::identity()]], &[&[&r.pi]], &mut t);
    let mut off = 0;
    let mut out = vec![];
    for e in take_log() {
        if e.kind == 'R' {
            out.push((off, if e.ty == "G" { 'G' } else { 'F' }));
            off += e.bytes.len();
        }
    }
    out
}

const R_HEX: &[u8] = b"73eda753299d7d483339d80809a1d80553bda402fffe5bfeffffffff00000001";

/// The sweep for one transcript hash `H` (`H2` = the other hash).
pub fn sweep<H: TranscriptHash, H2: TranscriptHash>(ctx: &mut Ctx, hname: &str, seed: u64)
where
    F: Hashable<H> + Sampleable<H> + Hashable<H2> + Sampleable<H2>,
    G1Projective: Hashable<H> + Hashable<H2>,
{
    let set = build::<H>(seed);
    let quick = ctx.quick();
    let shape = shape_of_vk(&set.vk);
    let cfg = "np=1 nc=1 lens=2";
    let honest: Vec<Req> = set.honest.iter().map(|(pi, proof)| Req { pi: pi.clone(), proof: proof.clone(), committed: None }).collect();
    // honest statements: accepted by every entry point at every position
    for (pos, h) in honest.iter().enumerate() {
        for (ep, r) in run_all::<H>(&set, &set.vk, h, pos, true) {
            ctx.count(&format!("entry:{hname}:{}:honest", ep.split('@').next().unwrap()));
            if r != Ok(true) {
                ctx.oracle_fail(
                    &format!("honest-rejected:{hname}:{ep}"),
                    "an honest zk_stdlib proof is rejected by a verification entry point",
                    json!({"hash": hname, "entry": ep, "member": pos, "result": format!("{r:?}")}),
                );
                return;
            }
        }
    }
    let mut n_mut = 0u64;
    let mut check = |ctx: &mut Ctx, class: &str, what: String, vk: &MidnightVK, vkname: &str, m: &Req, positions: &[usize], base: usize| {
        for (ix, pos) in positions.iter().enumerate() {
            // the single-proof entry points do not depend on the position: run them once
            let res = run_all::<H>(&set, vk, m, *pos, true);
            for (ep, r) in res {
                if ix > 0 && !ep.contains('@') {
                    continue;
                }
                let epc = ep.split('@').next().unwrap().to_string();
                ctx.count(&format!("entry:{hname}:{epc}:{class}"));
                n_mut += 1;
                let detail = json!({
                    "hash": hname, "entry": ep, "class": class, "mutation": what, "key": vkname, "honest_member": base,
                    "relation": "RelS<7>: public inputs (a+b, a*b+7), witnesses (2,3),(5,7),(0,9), srs seed 0xC03_5125",
                    "public_inputs": m.pi.iter().map(mzkh::fe_hex).collect::<Vec<_>>(),
                    "proof_len": m.proof.len(), "proof_hex": hex(&m.proof),
                });
                match r {
                    Ok(false) => {}
                    Ok(true) => ctx.oracle_fail(&format!("accepted-mutant:{epc}:{class}"), "a verification entry point accepted a mutated proof/statement/key", detail),
                    Err(pn) => ctx.oracle_fail(&format!("panic-on-mutant:{epc}:{class}"), &format!("a verification entry point panicked on a mutated proof/statement/key: {pn}"), detail),
                }
            }
        }
    };
    let all_pos = [0usize, 1, 2];
    // --- length edits: every honest member, every position
    for (b, h) in honest.iter().enumerate() {
        let junks: [(&str, Vec<u8>); 4] = [("trailing-1", vec![0u8]), ("trailing-7", vec![0xff; 7]), ("trailing-48", vec![0u8; 48]), ("trailing-copy-of-last-element", h.proof[h.proof.len() - 48..].to_vec())];
        for (class, junk) in junks.iter() {
            let mut m = h.clone();
            m.proof.extend_from_slice(junk);
            check(ctx, class, format!("honest proof {b} followed by {} bytes", junk.len()), &set.vk, "honest", &m, &[b], b);
            if b == 0 {
                check(ctx, class, format!("honest proof {b} followed by {} bytes", junk.len()), &set.vk, "honest", &m, &all_pos[1..], b);
            }
        }
        for (class, keep) in [("truncated-1", h.proof.len() - 1), ("truncated-element", h.proof.len() - 48), ("truncated-half", h.proof.len() / 2), ("empty-proof", 0)] {
            let mut m = h.clone();
            m.proof.truncate(keep);
            check(ctx, class, format!("honest proof {b} cut to {keep} bytes"), &set.vk, "honest", &m, &[b], b);
        }
    }
    // --- element substitutions on member 0 (position = element index mod 3)
    let h0 = &honest[0];
    let layout = layout_of::<H>(&set, h0);
    ctx.count_n(&format!("entry:{hname}:proof-elements"), layout.len() as u64);
    let stride = if quick { 3 } else { 1 };
    for (idx, (off, ty)) in layout.iter().enumerate() {
        // quick: every third element through all entry points (first and last always); all elements otherwise
        if idx % stride != 0 && idx + 1 != layout.len() {
            continue;
        }
        let size = if *ty == 'G' { 48 } else { 32 };
        let orig = &h0.proof[*off..*off + size];
        let mut variants: Vec<(&str, Vec<u8>)> = vec![];
        if *ty == 'G' {
            variants.push(("point-other-valid", (G1Projective::generator() * F::from(idx as u64 + 2)).to_affine().to_bytes().as_ref().to_vec()));
            variants.push(("point-invalid-encoding", vec![0xff; 48]));
            let mut neg = orig.to_vec();
            neg[0] ^= 0x20;
            variants.push(("point-negated", neg));
        } else {
            let v = match Option::<F>::from(F::from_repr(orig.try_into().unwrap())) {
                Some(v) => v,
                None => continue,
            };
            variants.push(("scalar-other-canonical", (v + F::ONE).to_repr().as_ref().to_vec()));
            variants.push(("scalar-noncanonical-ff", vec![0xff; 32]));
            let big = mzkh::fe_big(&v) + num_bigint::BigUint::parse_bytes(R_HEX, 16).unwrap();
            let mut b = big.to_bytes_le();
            if b.len() <= 32 {
                b.resize(32, 0);
                variants.push(("scalar-plus-modulus", b));
            }
        }
        for (class, bytes) in variants {
            if bytes == orig {
                continue;
            }
            let mut m = h0.clone();
            m.proof[*off..*off + size].copy_from_slice(&bytes);
            check(ctx, class, format!("element {idx} at offset {off} ({ty}) := {class}"), &set.vk, "honest", &m, &[idx % 3], 0);
        }
    }
    // --- public-input edits on every honest member at its own position
    for (b, h) in honest.iter().enumerate() {
        let mut edits: Vec<(&str, Vec<F>)> = vec![];
        let mut e = h.pi.clone();
        e[0] += F::ONE;
        edits.push(("pi-value", e));
        let mut e = h.pi.clone();
        e.swap(0, 1);
        if e != h.pi {
            edits.push(("pi-permutation", e));
        }
        let mut e = h.pi.clone();
        e.pop();
        edits.push(("pi-drop-last", e));
        let mut e = h.pi.clone();
        e.push(F::ZERO);
        edits.push(("pi-append-zero", e));
        let mut e = h.pi.clone();
        e.push(F::from(5));
        edits.push(("pi-extend", e));
        edits.push(("pi-empty", vec![]));
        edits.push(("pi-of-other-member", honest[(b + 1) % 3].pi.clone()));
        for (class, pi) in edits {
            let m = Req { pi, ..h.clone() };
            check(ctx, class, format!("member {b}: {class}"), &set.vk, "honest", &m, &[b], b);
        }
        // committed instance (single-proof entry points only: batch_verify has no such argument)
        let m = Req { committed: Some(G1Affine::generator()), ..h.clone() };
        check(ctx, "committed-instance", format!("member {b}: committed instance := G instead of the identity"), &set.vk, "honest", &m, &[b], b);
        // proof of another member for this statement
        let m = Req { proof: honest[(b + 1) % 3].proof.clone(), ..h.clone() };
        check(ctx, "proof-of-other-statement", format!("member {b}: proof of member {}", (b + 1) % 3), &set.vk, "honest", &m, &[b], b);
    }
    // --- wrong verifying key
    for (class, vk2) in set.other_vks.iter() {
        if vk2.vk().transcript_repr() == set.vk.vk().transcript_repr() {
            ctx.oracle_fail(&format!("vk-component-not-in-repr:zk-{class}"), "two different zk_stdlib relations have the same transcript_repr", json!({"class": class}));
        }
        for (b, h) in honest.iter().enumerate() {
            check(ctx, &format!("vk-{class}"), format!("member {b} under the key of another relation ({class})"), vk2, class, h, &[b], b);
        }
    }
    // --- other transcript hash: the same bytes through the entry points instantiated with H2
    for (b, h) in honest.iter().enumerate() {
        for (ep, r) in run_all::<H2>(&set, &set.vk, h, b, true) {
            let epc = ep.split('@').next().unwrap().to_string();
            ctx.count(&format!("entry:{hname}:{epc}:other-hash"));
            n_mut += 1;
            if r != Ok(false) {
                ctx.oracle_fail(
                    &format!("accepted-mutant:{epc}:other-hash"),
                    "a proof made with one transcript hash is accepted (or panics) under the other",
                    json!({"made_with": hname, "entry": ep, "member": b, "result": format!("{r:?}")}),
                );
            }
        }
    }
    ctx.count_n(&format!("entry:{hname}:mutant-verdicts"), n_mut);

    // --- correspondence: parsing-level verdicts of `verify` / `batch_verify` vs the model
    let first_bad = |proofs: &[Vec<u8>]| -> String {
        // smallest prefix of the batch that `batch_verify` rejects (members are honest statements with
        // parse-level edits only, so a rejection IS a parsing-level rejection)
        let vks = vec![set.vk.clone(); proofs.len()];
        let pis: Vec<Vec<F>> = (0..proofs.len()).map(|j| honest[j % 3].pi.clone()).collect();
        for n in 1..=proofs.len() {
            match mzkh::catch(|| midnight_zk_stdlib::batch_verify::<H>(&set.vp, &vks[..n], &pis[..n], &proofs[..n]).is_ok()) {
                Ok(true) => {}
                Ok(false) => return format!("reject {}", n - 1),
                Err(pn) => return format!("panic {pn}"),
            }
        }
        "ok".to_string()
    };
    let pr = |j: usize| honest[j].proof.clone();
    let with_junk = |j: usize, n: usize| {
        let mut p = pr(j);
        p.extend(std::iter::repeat(0xa5u8).take(n));
        p
    };
    let cut = |j: usize, n: usize| {
        let p = pr(j);
        p[..p.len() - n].to_vec()
    };
    let bad_point = |j: usize| {
        let mut p = pr(j);
        let (off, _) = layout.iter().find(|(_, t)| *t == 'G').copied().unwrap();
        p[off..off + 48].copy_from_slice(&[0xff; 48]);
        p
    };
    let batches: Vec<(&str, Vec<Vec<u8>>)> = vec![
        ("honest-3", vec![pr(0), pr(1), pr(2)]),
        ("honest-1", vec![pr(0)]),
        ("trailing-1@0", vec![with_junk(0, 1), pr(1), pr(2)]),
        ("trailing-7@1", vec![pr(0), with_junk(1, 7), pr(2)]),
        ("trailing-48@2", vec![pr(0), pr(1), with_junk(2, 48)]),
        ("trailing-1-singleton", vec![with_junk(0, 1)]),
        ("trailing-32@1-and-2", vec![pr(0), with_junk(1, 32), with_junk(2, 32)]),
        ("truncated-1@2", vec![pr(0), pr(1), cut(2, 1)]),
        ("truncated-48@0", vec![cut(0, 48), pr(1), pr(2)]),
        ("invalid-point@1", vec![pr(0), bad_point(1), pr(2)]),
        ("empty@1", vec![pr(0), vec![], pr(2)]),
    ];
    for (class, proofs) in batches {
        let ans = first_bad(&proofs);
        ctx.case(
            &format!("batchparse:{hname}:{class}"),
            true,
            &format!("batchparse {shape} {cfg} proofs={}", proofs.iter().map(|p| hex(p)).collect::<Vec<_>>().join(";")),
            &ans,
        );
    }
    for (class, proof) in [("honest", pr(0)), ("trailing-1", with_junk(0, 1)), ("trailing-48", with_junk(1, 48)), ("truncated-1", cut(2, 1)), ("invalid-point", bad_point(0)), ("empty", vec![])] {
        let r = mzkh::catch(|| midnight_zk_stdlib::verify::<RelS<7>, H>(&set.vp, &set.vk, &honest[if class == "trailing-48" { 1 } else if class == "truncated-1" { 2 } else { 0 }].pi, None, &proof).is_ok());
        let ans = match r {
            Ok(true) => "ok".to_string(),
            Ok(false) => "reject".to_string(),
            Err(pn) => format!("panic {pn}"),
        };
        ctx.case(&format!("verifyparse:{hname}:{class}"), true, &format!("verifyparse {shape} {cfg} proof={}", hex(&proof)), &ans);
    }
    let _ = ctx.rng("entry").gen::<u8>();
}

pub fn run(ctx: &mut Ctx) {
    sweep::<Blake2bState, PoseidonState<F>>(ctx, "blake", 0xC03_0001);
    sweep::<PoseidonState<F>, Blake2bState>(ctx, "poseidon", 0xC03_0002);
}
