//! Correspondence harness of property C03: a proof is accepted only for the exact statement
//! and bytes it was made for.
//!
//! Correspondence lines (model = Lean `MidnightZK.C03`):
//!   `layout <shape> <cfg>`   → byte offset and type of every proof element, from the recorded
//!                              verifier transcript (model: layout of `verifierSchedule`);
//!   `inststream <cols>`      → field elements absorbed for the plain instance columns;
//!   `scalar <64 hex>`        → verdict/value of the checked scalar decoder.
//! Oracle (mutation sweep): every mutated proof / public input / verifying key / transcript hash
//! must make verification return an error (never accept, never panic).

use blake2b_simd::State as Blake2bState;
use ff::{Field, PrimeField};
use group::{Curve, Group, GroupEncoding};
use midnight_circuits::hash::poseidon::PoseidonState;
use midnight_curves::{Bls12, Fq as F, G1Projective};
use midnight_proofs::{
    plonk::{commit_to_instances, create_proof, keygen_pk, keygen_vk_with_k, prepare, ProvingKey, VerifyingKey},
    poly::{
        commitment::Guard,
        kzg::{params::ParamsKZG, KZGCommitmentScheme},
    },
    transcript::{Hashable, Sampleable, Transcript, TranscriptHash},
};
use mzkh::{
    family::{sample_params, FamCircuit, FamParams, GateKind, LookupKind},
    recording::{take_log, RecordingTranscript},
    Ctx,
};
use rand::{Rng, SeedableRng};
use rand_chacha::ChaCha8Rng;
use serde_json::json;

type Scheme = KZGCommitmentScheme<Bls12>;

use mzkh::shape;

struct Member {
    fp: FamParams,
    k: u32,
    params: ParamsKZG<Bls12>,
    pk: ProvingKey<F, Scheme>,
}

fn setup_member(fp: &FamParams, seed: u64, min_k: u32) -> Member {
    let c = FamCircuit::new(fp.clone(), seed);
    let mut k = min_k;
    loop {
        let params = ParamsKZG::<Bls12>::unsafe_setup(k, ChaCha8Rng::seed_from_u64(k as u64 + 99));
        match keygen_vk_with_k::<F, Scheme, _>(&params, &c, k) {
            Ok(vk) => {
                let pk = keygen_pk(vk, &c).unwrap();
                return Member { fp: fp.clone(), k, params, pk };
            }
            Err(_) if k < 10 => k += 1,
            Err(e) => panic!("keygen failed: {e:?}"),
        }
    }
}

/// Verdict of the real verifier: Ok(true) accepted, Ok(false) error value, Err = panic.
fn verify<H: TranscriptHash>(
    params: &ParamsKZG<Bls12>,
    vk: &VerifyingKey<F, Scheme>,
    n_committed: usize,
    insts: &[Vec<Vec<F>>],
    coms: &[Vec<G1Projective>],
    proof: &[u8],
) -> Result<bool, String>
where
    F: Hashable<H> + Sampleable<H>,
    G1Projective: Hashable<H>,
{
    let com_refs: Vec<&[G1Projective]> = coms.iter().map(|c| &c[..]).collect();
    let plain: Vec<Vec<&[F]>> = insts.iter().map(|cols| cols[n_committed.min(cols.len())..].iter().map(|c| &c[..]).collect()).collect();
    let plain2: Vec<&[&[F]]> = plain.iter().map(|c| &c[..]).collect();
    mzkh::catch(|| {
        let mut vt = RecordingTranscript::<H>::init_from_bytes(proof);
        let g = match prepare::<F, Scheme, _>(vk, &com_refs, &plain2, &mut vt) {
            Ok(g) => g,
            Err(_) => return false,
        };
        if vt.assert_empty().is_err() {
            return false;
        }
        g.verify(&params.verifier_params()).is_ok()
    })
}

struct Proven {
    proof: Vec<u8>,
    insts: Vec<Vec<Vec<F>>>,
    coms: Vec<Vec<G1Projective>>,
    /// (offset, 'G' | 'F') of every proof element
    layout: Vec<(usize, char)>,
}

fn prove<H: TranscriptHash>(ctx: &mut Ctx, m: &Member, n_proofs: usize, seed: u64) -> Option<Proven>
where
    F: Hashable<H> + Sampleable<H>,
    G1Projective: Hashable<H>,
{
    let circuits: Vec<FamCircuit> = (0..n_proofs).map(|i| FamCircuit::new(m.fp.clone(), seed + i as u64)).collect();
    let insts: Vec<Vec<Vec<F>>> = circuits.iter().map(|c| c.instances()).collect();
    let inst_refs: Vec<Vec<&[F]>> = insts.iter().map(|cols| cols.iter().map(|c| &c[..]).collect()).collect();
    let inst_refs2: Vec<&[&[F]]> = inst_refs.iter().map(|c| &c[..]).collect();
    let mut tr = RecordingTranscript::<H>::init();
    create_proof::<F, Scheme, _, _>(&m.params, &m.pk, &circuits, m.fp.n_committed, &inst_refs2, ChaCha8Rng::seed_from_u64(seed ^ 0xbeef), &mut tr)
        .expect("honest proving");
    let proof = tr.finalize();
    let domain = m.pk.get_vk().get_domain();
    let coms: Vec<Vec<G1Projective>> = insts
        .iter()
        .map(|cols| cols[..m.fp.n_committed].iter().map(|c| commit_to_instances::<F, Scheme>(&m.params, domain, c)).collect())
        .collect();
    take_log();
    let ok = verify::<H>(&m.params, m.pk.get_vk(), m.fp.n_committed, &insts, &coms, &proof);
    let events = take_log();
    if ok != Ok(true) {
        ctx.oracle_fail("honest-rejected", "honest proof rejected (C01)", json!({"params": format!("{:?}", m.fp), "seed": seed}));
        return None;
    }
    let mut layout = vec![];
    let mut off = 0;
    let mut stream: Vec<String> = vec![];
    for e in &events {
        if e.kind == 'R' {
            layout.push((off, if e.ty == "G" { 'G' } else { 'F' }));
            off += e.bytes.len();
        }
    }
    // correspondence: layout
    let shape = shape::shape_string(&m.pk, m.k);
    let lens = insts
        .iter()
        .map(|cols| mzkh::join(&cols[m.fp.n_committed..].iter().map(|c| c.len()).collect::<Vec<_>>()))
        .collect::<Vec<_>>()
        .join("|");
    let cfg = format!("np={} nc={} lens={}", n_proofs, m.fp.n_committed, lens);
    ctx.case(
        "layout",
        true,
        &format!("layout {shape} {cfg}"),
        &layout.iter().map(|(o, t)| format!("{o}:{t}")).collect::<Vec<_>>().join(" "),
    );
    // correspondence: absorbed instance stream of the first proof (events between the vk repr
    // and the first advice commitment that are absorbed scalars)
    let nplain: usize = insts[0][m.fp.n_committed..].iter().map(|c| c.len() + 1).sum();
    for e in events.iter().skip(1) {
        if e.kind == 'C' && e.ty == "F" && stream.len() < nplain {
            stream.push(mzkh::le_bytes_hex(&e.bytes));
        }
    }
    let cols_s = insts[0][m.fp.n_committed..]
        .iter()
        .map(|c| c.iter().map(mzkh::fe_hex).collect::<Vec<_>>().join(","))
        .collect::<Vec<_>>()
        .join("|");
    if n_proofs == 1 || m.fp.n_committed == 0 || true {
        ctx.case("inststream", nplain > 0, &format!("inststream {}", if cols_s.is_empty() { "-".into() } else { cols_s }), &mzkh::join(&stream));
    }
    Some(Proven { proof, insts, coms, layout })
}

fn other_point(i: usize) -> Vec<u8> {
    (G1Projective::generator() * F::from(i as u64 + 2)).to_affine().to_bytes().as_ref().to_vec()
}

fn mutate_all<H: TranscriptHash, H2: TranscriptHash>(ctx: &mut Ctx, m: &Member, p: &Proven, n_flips: usize, seed: u64)
where
    F: Hashable<H> + Sampleable<H> + Hashable<H2> + Sampleable<H2>,
    G1Projective: Hashable<H> + Hashable<H2>,
{
    let vk = m.pk.get_vk();
    let nc = m.fp.n_committed;
    let desc = json!({"params": format!("{:?}", m.fp), "k": m.k, "seed": seed, "n_proofs": p.insts.len()});
    let mut check = |ctx: &mut Ctx, class: &str, what: String, proof: &[u8], insts: &[Vec<Vec<F>>], coms: &[Vec<G1Projective>]| {
        ctx.count(&format!("mutant:{class}"));
        match verify::<H>(&m.params, vk, nc, insts, coms, proof) {
            Ok(false) => {}
            Ok(true) => ctx.oracle_fail(&format!("accepted-mutant:{class}"), "verifier accepted a mutated proof/statement", json!({"case": desc, "mutation": what})),
            Err(pn) => ctx.oracle_fail(&format!("panic-on-mutant:{class}"), "verifier panicked on a mutated proof/statement", json!({"case": desc, "mutation": what, "panic": pn})),
        }
    };
    // element-wise substitutions
    for (idx, (off, ty)) in p.layout.iter().enumerate() {
        let size = if *ty == 'G' { 48 } else { 32 };
        let orig = &p.proof[*off..*off + size];
        let mut variants: Vec<(&str, Vec<u8>)> = vec![];
        if *ty == 'G' {
            variants.push(("point-other-valid", other_point(idx)));
            variants.push(("point-invalid-encoding", vec![0xff; 48]));
            let mut flagless = orig.to_vec();
            flagless[0] &= 0x7f; // clear the compression flag
            variants.push(("point-flag-cleared", flagless));
        } else {
            let v = match Option::<F>::from(F::from_repr(orig.try_into().unwrap())) {
                Some(v) => v,
                None => continue,
            };
            variants.push(("scalar-other-canonical", (v + F::ONE).to_repr().as_ref().to_vec()));
            variants.push(("scalar-noncanonical-ff", vec![0xff; 32]));
            // value + modulus (non-canonical encoding of the same residue) when it fits in 256 bits
            let big = mzkh::fe_big(&v) + num_bigint::BigUint::parse_bytes(b"73eda753299d7d483339d80809a1d80553bda402fffe5bfeffffffff00000001", 16).unwrap();
            let mut b = big.to_bytes_le();
            if b.len() <= 32 {
                b.resize(32, 0);
                variants.push(("scalar-plus-modulus", b));
            }
        }
        for (class, bytes) in variants {
            if bytes == orig {
                continue;
            }
            let mut pr = p.proof.clone();
            pr[*off..*off + size].copy_from_slice(&bytes);
            check(ctx, class, format!("element {idx} at offset {off} ({ty}) := {class}"), &pr, &p.insts, &p.coms);
        }
    }
    // bit flips
    let mut rng = ctx.rng(&format!("flips{seed}"));
    let total_bits = p.proof.len() * 8;
    let flips: Vec<usize> = if n_flips >= total_bits { (0..total_bits).collect() } else { (0..n_flips).map(|_| rng.gen_range(0..total_bits)).collect() };
    for b in flips {
        let mut pr = p.proof.clone();
        pr[b / 8] ^= 1 << (b % 8);
        check(ctx, "bit-flip", format!("bit {b}"), &pr, &p.insts, &p.coms);
    }
    // length edits
    let mut pr = p.proof.clone();
    pr.push(0);
    check(ctx, "trailing-byte", "append 0x00".into(), &pr, &p.insts, &p.coms);
    let mut pr = p.proof.clone();
    pr.extend_from_slice(&p.proof[p.proof.len() - 48..]);
    check(ctx, "trailing-element", "append a copy of the last element".into(), &pr, &p.insts, &p.coms);
    let mut pr = p.proof.clone();
    pr.pop();
    check(ctx, "truncated", "drop last byte".into(), &pr, &p.insts, &p.coms);
    check(ctx, "truncated", "drop last element".into(), &p.proof[..p.proof.len() - 48], &p.insts, &p.coms);
    check(ctx, "empty-proof", "empty".into(), &[], &p.insts, &p.coms);
    // public-input edits (plain columns)
    for pi in 0..p.insts.len() {
        for c in nc..p.insts[pi].len() {
            let col = &p.insts[pi][c];
            let mut e = p.insts.clone();
            e[pi][c][0] += F::ONE;
            check(ctx, "pi-value", format!("proof {pi} column {c} row 0 += 1"), &p.proof, &e, &p.coms);
            if col.len() >= 2 && col[0] != col[1] {
                let mut e = p.insts.clone();
                e[pi][c].swap(0, 1);
                check(ctx, "pi-permutation", format!("proof {pi} column {c} swap rows 0,1"), &p.proof, &e, &p.coms);
            }
            let mut e = p.insts.clone();
            e[pi][c].pop();
            check(ctx, "pi-drop-last", format!("proof {pi} column {c}"), &p.proof, &e, &p.coms);
            let mut e = p.insts.clone();
            e[pi][c].push(F::ZERO);
            check(ctx, "pi-append-zero", format!("proof {pi} column {c}"), &p.proof, &e, &p.coms);
            if c + 1 < p.insts[pi].len() {
                let mut e = p.insts.clone();
                let v = e[pi][c].pop().unwrap();
                e[pi][c + 1].push(v);
                check(ctx, "pi-move-between-columns", format!("proof {pi} column {c} -> {}", c + 1), &p.proof, &e, &p.coms);
            }
        }
        if p.insts[pi].len() > nc {
            let mut e = p.insts.clone();
            e[pi].pop();
            check(ctx, "pi-drop-column", format!("proof {pi}"), &p.proof, &e, &p.coms);
            let mut e = p.insts.clone();
            e[pi].push(vec![]);
            check(ctx, "pi-extra-column", format!("proof {pi}"), &p.proof, &e, &p.coms);
        }
        // committed instance edits
        for c in 0..nc {
            let mut e = p.coms.clone();
            e[pi][c] += G1Projective::generator();
            check(ctx, "committed-instance", format!("proof {pi} committed column {c} += G"), &p.proof, &p.insts, &e);
        }
    }
    if p.insts.len() >= 2 && p.insts[0] != p.insts[1] {
        let mut e = p.insts.clone();
        e.swap(0, 1);
        let mut ec = p.coms.clone();
        ec.swap(0, 1);
        check(ctx, "pi-swap-proofs", "swap the statements of proofs 0 and 1".into(), &p.proof, &e, &ec);
    }
    // other transcript hash
    ctx.count("mutant:other-hash");
    match verify::<H2>(&m.params, vk, nc, &p.insts, &p.coms, &p.proof) {
        Ok(false) => {}
        other => ctx.oracle_fail("accepted-mutant:other-hash", "proof verified under a different transcript hash", json!({"case": desc, "result": format!("{other:?}")})),
    }
}

fn wrong_vk(ctx: &mut Ctx, m: &Member, p: &Proven, others: &[(&str, &Member)]) {
    for (class, o) in others {
        ctx.count(&format!("mutant:vk-{class}"));
        let r = verify::<Blake2bState>(&o.params, o.pk.get_vk(), m.fp.n_committed, &p.insts, &p.coms, &p.proof);
        match r {
            Ok(false) => {}
            other => ctx.oracle_fail(
                &format!("accepted-mutant:vk-{class}"),
                "proof verified (or verifier panicked) under a different verifying key",
                json!({"params": format!("{:?}", m.fp), "other": format!("{:?}", o.fp), "other_k": o.k, "result": format!("{other:?}")}),
            ),
        }
    }
}

fn scalar_cases(ctx: &mut Ctx) {
    let r = num_bigint::BigUint::parse_bytes(b"73eda753299d7d483339d80809a1d80553bda402fffe5bfeffffffff00000001", 16).unwrap();
    let one = num_bigint::BigUint::from(1u8);
    let mut vals = vec![num_bigint::BigUint::from(0u8), one.clone(), &r - &one, r.clone(), &r + &one, (&one << 255u32) - &one, (&one << 256u32) - &one, &r - num_bigint::BigUint::from(2u8), &r << 1u32];
    let mut rng = ctx.rng("scalars");
    for _ in 0..40 {
        let mut b = [0u8; 32];
        rng.fill(&mut b);
        vals.push(num_bigint::BigUint::from_bytes_le(&b));
    }
    for v in vals {
        let mut b = v.to_bytes_le();
        if b.len() > 32 {
            continue;
        }
        b.resize(32, 0);
        let hex: String = b.iter().map(|x| format!("{x:02x}")).collect();
        // the decoder used by the transcript for scalars
        let mut rd = &b[..];
        let got = <F as Hashable<Blake2bState>>::read(&mut rd);
        let ans = match got {
            Ok(x) => format!("some {}", mzkh::fe_hex(&x)),
            Err(_) => "none".to_string(),
        };
        ctx.case("scalar", true, &format!("scalar {hex}"), &ans);
        let mut rd = &b[..];
        let got = <F as Hashable<PoseidonState<F>>>::read(&mut rd);
        let ans = match got {
            Ok(x) => format!("some {}", mzkh::fe_hex(&x)),
            Err(_) => "none".to_string(),
        };
        ctx.case("scalar-poseidon", true, &format!("scalar {hex}"), &ans);
    }
}

fn main() {
    let mut ctx = Ctx::from_args("C03");
    let mut rng = ctx.rng("family");
    let (n_members, n_flips) = match ctx.tier.as_str() {
        "quick" => (8, 128),
        "thorough" => (24, usize::MAX),
        _ => (10, 600),
    };
    scalar_cases(&mut ctx);
    let every = FamParams {
        n_adv0: 4,
        n_adv1: 1,
        unblinded: true,
        n_committed: 1,
        n_plain: 2,
        gates: vec![GateKind::Mul, GateKind::LinRot, GateKind::Additive, GateKind::Chal],
        lookups: vec![LookupKind::Range, LookupKind::Pair],
        copies: true,
        const_copies: true,
        inst_copies: true,
        steps: 6,
        table_bits: 3,
    };
    let base = setup_member(&every, 31, 4);
    // wrong verifying keys: same circuit at another k; another circuit; same shape with other fixed content
    let other_k = setup_member(&every, 31, base.k + 1);
    let other_circuit = setup_member(&FamParams { gates: vec![GateKind::Mul, GateKind::LinRot, GateKind::Additive, GateKind::Complex], ..every.clone() }, 31, 4);
    let other_fixed = setup_member(&FamParams { steps: 5, ..every.clone() }, 31, base.k);
    for np in [1usize, 2] {
        if let Some(p) = prove::<Blake2bState>(&mut ctx, &base, np, 300 + np as u64) {
            mutate_all::<Blake2bState, PoseidonState<F>>(&mut ctx, &base, &p, n_flips, 300 + np as u64);
            wrong_vk(&mut ctx, &base, &p, &[("other-k", &other_k), ("other-circuit", &other_circuit), ("other-fixed", &other_fixed)]);
        }
    }
    // the same under the Poseidon transcript (its scalar/point readers are separate code)
    ctx.count("hash:poseidon");
    if let Some(p) = prove::<PoseidonState<F>>(&mut ctx, &base, 1, 310) {
        mutate_all::<PoseidonState<F>, Blake2bState>(&mut ctx, &base, &p, n_flips, 310);
    }
    for i in 0..n_members {
        let fp = sample_params(&mut rng);
        let m = setup_member(&fp, 3000 + i as u64, 4);
        let np = rng.gen_range(1..=2);
        if i % 2 == 0 {
            if let Some(p) = prove::<Blake2bState>(&mut ctx, &m, np, 3000 + i as u64) {
                mutate_all::<Blake2bState, PoseidonState<F>>(&mut ctx, &m, &p, n_flips, 3000 + i as u64);
            }
        } else if let Some(p) = prove::<PoseidonState<F>>(&mut ctx, &m, np, 3000 + i as u64) {
            mutate_all::<PoseidonState<F>, Blake2bState>(&mut ctx, &m, &p, n_flips, 3000 + i as u64);
        }
    }
    ctx.finish();
}
