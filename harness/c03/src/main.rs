//! Correspondence harness of property C03 (stub).
use mzkh::Ctx;

fn main() {
    let ctx = Ctx::from_args("C03");
    ctx.finish();
}
