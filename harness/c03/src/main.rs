//! Correspondence harness of property C03: a proof is accepted only for the exact statement
//! and bytes it was made for.
//!
//! Correspondence lines (model = Lean `MidnightZK.C03`):
//!   `layout <shape> <cfg>`   → byte offset and type of every proof element, from the recorded
//!                              verifier transcript (model: layout of `verifierSchedule`);
//!   `inststream <cols>`      → field elements absorbed for the plain instance columns;
//!   `scalar <64 hex>`        → verdict/value of the checked scalar decoder;
//!   `point`, `pointinput`, `absorbed`, `parse`, `vkinput` (see the functions below);
//!   `verifyparse` / `batchparse` (entry.rs), `csdebug` (mini.rs).
//! Modules: `absorb` (logging hash states), `entry` (every verification entry point on every mutant class, real
//! zk_stdlib relations), `mini` (hand-made circuit: one key component at a time, the advice-phase gap of
//! transcript_repr, cross-column public-input edits, absorption-collision search).
//! Oracle (mutation sweep): every mutated proof / public input / verifying key / transcript hash
//! must make verification return an error (never accept, never panic).

mod absorb;
mod entry;
mod mini;

use absorb::{blake_answer, hex, point_coords, poseidon_answer, take_hlog, HEv, RecBlake, RecPoseidon};
use blake2b_simd::State as Blake2bState;
use ff::{Field, FromUniformBytes, PrimeField};
use group::{prime::PrimeCurveAffine, Curve, Group, GroupEncoding};
use midnight_circuits::hash::poseidon::PoseidonState;
use midnight_curves::{Bls12, Fq as F, G1Projective};
use midnight_proofs::{
    plonk::{commit_to_instances, create_proof, keygen_pk, keygen_vk_with_k, prepare, ProvingKey, VerifyingKey},
    poly::{
        commitment::Guard,
        kzg::{params::ParamsKZG, KZGCommitmentScheme},
    },
    transcript::{CircuitTranscript, Hashable, Sampleable, Transcript, TranscriptHash},
    utils::SerdeFormat,
};
use mzkh::{
    family::{sample_params, FamCircuit, FamParams, GateKind, LookupKind},
    recording::{take_log, RecordingTranscript},
    Ctx,
};
use rand::{Rng, SeedableRng};
use rand_chacha::ChaCha8Rng;
use serde_json::json;

type Scheme = KZGCommitmentScheme<Bls12>;

use mzkh::shape;

struct Member {
    fp: FamParams,
    k: u32,
    params: ParamsKZG<Bls12>,
    pk: ProvingKey<F, Scheme>,
}

fn setup_member(fp: &FamParams, seed: u64, min_k: u32) -> Member {
    let c = FamCircuit::new(fp.clone(), seed);
    let mut k = min_k;
    loop {
        let params = ParamsKZG::<Bls12>::unsafe_setup(k, ChaCha8Rng::seed_from_u64(k as u64 + 99));
        match keygen_vk_with_k::<F, Scheme, _>(&params, &c, k) {
            Ok(vk) => {
                let pk = keygen_pk(vk, &c).unwrap();
                return Member { fp: fp.clone(), k, params, pk };
            }
            Err(_) if k < 10 => k += 1,
            Err(e) => panic!("keygen failed: {e:?}"),
        }
    }
}

/// Verdict of the real verifier: Ok(true) accepted, Ok(false) error value, Err = panic.
fn verify<H: TranscriptHash>(
    params: &ParamsKZG<Bls12>,
    vk: &VerifyingKey<F, Scheme>,
    n_committed: usize,
    insts: &[Vec<Vec<F>>],
    coms: &[Vec<G1Projective>],
    proof: &[u8],
) -> Result<bool, String>
where
    F: Hashable<H> + Sampleable<H>,
    G1Projective: Hashable<H>,
{
    let com_refs: Vec<&[G1Projective]> = coms.iter().map(|c| &c[..]).collect();
    let plain: Vec<Vec<&[F]>> = insts.iter().map(|cols| cols[n_committed.min(cols.len())..].iter().map(|c| &c[..]).collect()).collect();
    let plain2: Vec<&[&[F]]> = plain.iter().map(|c| &c[..]).collect();
    mzkh::catch(|| {
        let mut vt = RecordingTranscript::<H>::init_from_bytes(proof);
        let g = match prepare::<F, Scheme, _>(vk, &com_refs, &plain2, &mut vt) {
            Ok(g) => g,
            Err(_) => return false,
        };
        if vt.assert_empty().is_err() {
            return false;
        }
        g.verify(&params.verifier_params()).is_ok()
    })
}

struct Proven {
    proof: Vec<u8>,
    insts: Vec<Vec<Vec<F>>>,
    coms: Vec<Vec<G1Projective>>,
    /// (offset, 'G' | 'F') of every proof element
    layout: Vec<(usize, char)>,
}

fn prove<H: TranscriptHash>(ctx: &mut Ctx, m: &Member, n_proofs: usize, seed: u64) -> Option<Proven>
where
    F: Hashable<H> + Sampleable<H>,
    G1Projective: Hashable<H>,
{
    let circuits: Vec<FamCircuit> = (0..n_proofs).map(|i| FamCircuit::new(m.fp.clone(), seed + i as u64)).collect();
    let insts: Vec<Vec<Vec<F>>> = circuits.iter().map(|c| c.instances()).collect();
    let inst_refs: Vec<Vec<&[F]>> = insts.iter().map(|cols| cols.iter().map(|c| &c[..]).collect()).collect();
    let inst_refs2: Vec<&[&[F]]> = inst_refs.iter().map(|c| &c[..]).collect();
    let mut tr = RecordingTranscript::<H>::init();
    create_proof::<F, Scheme, _, _>(&m.params, &m.pk, &circuits, m.fp.n_committed, &inst_refs2, ChaCha8Rng::seed_from_u64(seed ^ 0xbeef), &mut tr)
        .expect("honest proving");
    let proof = tr.finalize();
    let domain = m.pk.get_vk().get_domain();
    let coms: Vec<Vec<G1Projective>> = insts
        .iter()
        .map(|cols| cols[..m.fp.n_committed].iter().map(|c| commit_to_instances::<F, Scheme>(&m.params, domain, c)).collect())
        .collect();
    take_log();
    let ok = verify::<H>(&m.params, m.pk.get_vk(), m.fp.n_committed, &insts, &coms, &proof);
    let events = take_log();
    if ok != Ok(true) {
        ctx.oracle_fail("honest-rejected", "honest proof rejected (C01)", json!({"params": format!("{:?}", m.fp), "seed": seed}));
        return None;
    }
    let mut layout = vec![];
    let mut off = 0;
    let mut stream: Vec<String> = vec![];
    for e in &events {
        if e.kind == 'R' {
            layout.push((off, if e.ty == "G" { 'G' } else { 'F' }));
            off += e.bytes.len();
        }
    }
    // correspondence: layout
    let shape = shape::shape_string(&m.pk, m.k);
    let lens = insts
        .iter()
        .map(|cols| mzkh::join(&cols[m.fp.n_committed..].iter().map(|c| c.len()).collect::<Vec<_>>()))
        .collect::<Vec<_>>()
        .join("|");
    let cfg = format!("np={} nc={} lens={}", n_proofs, m.fp.n_committed, lens);
    ctx.case(
        "layout",
        true,
        &format!("layout {shape} {cfg}"),
        &layout.iter().map(|(o, t)| format!("{o}:{t}")).collect::<Vec<_>>().join(" "),
    );
    // correspondence: absorbed instance stream of the first proof (events between the vk repr
    // and the first advice commitment that are absorbed scalars)
    let nplain: usize = insts[0][m.fp.n_committed..].iter().map(|c| c.len() + 1).sum();
    for e in events.iter().skip(1) {
        if e.kind == 'C' && e.ty == "F" && stream.len() < nplain {
            stream.push(mzkh::le_bytes_hex(&e.bytes));
        }
    }
    let cols_s = insts[0][m.fp.n_committed..]
        .iter()
        .map(|c| c.iter().map(mzkh::fe_hex).collect::<Vec<_>>().join(","))
        .collect::<Vec<_>>()
        .join("|");
    if n_proofs == 1 || m.fp.n_committed == 0 || true {
        ctx.case("inststream", nplain > 0, &format!("inststream {}", if cols_s.is_empty() { "-".into() } else { cols_s }), &mzkh::join(&stream));
    }
    Some(Proven { proof, insts, coms, layout })
}

fn other_point(i: usize) -> Vec<u8> {
    (G1Projective::generator() * F::from(i as u64 + 2)).to_affine().to_bytes().as_ref().to_vec()
}

fn mutate_all<H: TranscriptHash, H2: TranscriptHash>(ctx: &mut Ctx, m: &Member, p: &Proven, n_flips: usize, seed: u64)
where
    F: Hashable<H> + Sampleable<H> + Hashable<H2> + Sampleable<H2>,
    G1Projective: Hashable<H> + Hashable<H2>,
{
    let vk = m.pk.get_vk();
    let nc = m.fp.n_committed;
    let desc = json!({"params": format!("{:?}", m.fp), "k": m.k, "seed": seed, "n_proofs": p.insts.len()});
    let mut check = |ctx: &mut Ctx, class: &str, what: String, proof: &[u8], insts: &[Vec<Vec<F>>], coms: &[Vec<G1Projective>]| {
        ctx.count(&format!("mutant:{class}"));
        match verify::<H>(&m.params, vk, nc, insts, coms, proof) {
            Ok(false) => {}
            Ok(true) => ctx.oracle_fail(&format!("accepted-mutant:{class}"), "verifier accepted a mutated proof/statement", json!({"case": desc, "mutation": what})),
            Err(pn) => ctx.oracle_fail(&format!("panic-on-mutant:{class}"), "verifier panicked on a mutated proof/statement", json!({"case": desc, "mutation": what, "panic": pn})),
        }
    };
    // element-wise substitutions
    for (idx, (off, ty)) in p.layout.iter().enumerate() {
        let size = if *ty == 'G' { 48 } else { 32 };
        let orig = &p.proof[*off..*off + size];
        let mut variants: Vec<(&str, Vec<u8>)> = vec![];
        if *ty == 'G' {
            variants.push(("point-other-valid", other_point(idx)));
            variants.push(("point-invalid-encoding", vec![0xff; 48]));
            let mut flagless = orig.to_vec();
            flagless[0] &= 0x7f; // clear the compression flag
            variants.push(("point-flag-cleared", flagless));
        } else {
            let v = match Option::<F>::from(F::from_repr(orig.try_into().unwrap())) {
                Some(v) => v,
                None => continue,
            };
            variants.push(("scalar-other-canonical", (v + F::ONE).to_repr().as_ref().to_vec()));
            variants.push(("scalar-noncanonical-ff", vec![0xff; 32]));
            // value + modulus (non-canonical encoding of the same residue) when it fits in 256 bits
            let big = mzkh::fe_big(&v) + num_bigint::BigUint::parse_bytes(b"73eda753299d7d483339d80809a1d80553bda402fffe5bfeffffffff00000001", 16).unwrap();
            let mut b = big.to_bytes_le();
            if b.len() <= 32 {
                b.resize(32, 0);
                variants.push(("scalar-plus-modulus", b));
            }
        }
        for (class, bytes) in variants {
            if bytes == orig {
                continue;
            }
            let mut pr = p.proof.clone();
            pr[*off..*off + size].copy_from_slice(&bytes);
            check(ctx, class, format!("element {idx} at offset {off} ({ty}) := {class}"), &pr, &p.insts, &p.coms);
        }
    }
    // bit flips
    let mut rng = ctx.rng(&format!("flips{seed}"));
    let total_bits = p.proof.len() * 8;
    let flips: Vec<usize> = if n_flips >= total_bits { (0..total_bits).collect() } else { (0..n_flips).map(|_| rng.gen_range(0..total_bits)).collect() };
    for b in flips {
        let mut pr = p.proof.clone();
        pr[b / 8] ^= 1 << (b % 8);
        check(ctx, "bit-flip", format!("bit {b}"), &pr, &p.insts, &p.coms);
    }
    // length edits
    let mut pr = p.proof.clone();
    pr.push(0);
    check(ctx, "trailing-byte", "append 0x00".into(), &pr, &p.insts, &p.coms);
    let mut pr = p.proof.clone();
    pr.extend_from_slice(&p.proof[p.proof.len() - 48..]);
    check(ctx, "trailing-element", "append a copy of the last element".into(), &pr, &p.insts, &p.coms);
    let mut pr = p.proof.clone();
    pr.pop();
    check(ctx, "truncated", "drop last byte".into(), &pr, &p.insts, &p.coms);
    check(ctx, "truncated", "drop last element".into(), &p.proof[..p.proof.len() - 48], &p.insts, &p.coms);
    check(ctx, "empty-proof", "empty".into(), &[], &p.insts, &p.coms);
    // public-input edits (plain columns)
    for pi in 0..p.insts.len() {
        for c in nc..p.insts[pi].len() {
            let col = &p.insts[pi][c];
            let mut e = p.insts.clone();
            e[pi][c][0] += F::ONE;
            check(ctx, "pi-value", format!("proof {pi} column {c} row 0 += 1"), &p.proof, &e, &p.coms);
            if col.len() >= 2 && col[0] != col[1] {
                let mut e = p.insts.clone();
                e[pi][c].swap(0, 1);
                check(ctx, "pi-permutation", format!("proof {pi} column {c} swap rows 0,1"), &p.proof, &e, &p.coms);
            }
            let mut e = p.insts.clone();
            e[pi][c].pop();
            check(ctx, "pi-drop-last", format!("proof {pi} column {c}"), &p.proof, &e, &p.coms);
            let mut e = p.insts.clone();
            e[pi][c].push(F::ZERO);
            check(ctx, "pi-append-zero", format!("proof {pi} column {c}"), &p.proof, &e, &p.coms);
            if c + 1 < p.insts[pi].len() {
                let mut e = p.insts.clone();
                let v = e[pi][c].pop().unwrap();
                e[pi][c + 1].push(v);
                check(ctx, "pi-move-between-columns", format!("proof {pi} column {c} -> {}", c + 1), &p.proof, &e, &p.coms);
            }
        }
        if p.insts[pi].len() > nc {
            let mut e = p.insts.clone();
            e[pi].pop();
            check(ctx, "pi-drop-column", format!("proof {pi}"), &p.proof, &e, &p.coms);
            let mut e = p.insts.clone();
            e[pi].push(vec![]);
            check(ctx, "pi-extra-column", format!("proof {pi}"), &p.proof, &e, &p.coms);
        }
        // committed instance edits
        for c in 0..nc {
            let mut e = p.coms.clone();
            e[pi][c] += G1Projective::generator();
            check(ctx, "committed-instance", format!("proof {pi} committed column {c} += G"), &p.proof, &p.insts, &e);
        }
    }
    if p.insts.len() >= 2 && p.insts[0] != p.insts[1] {
        let mut e = p.insts.clone();
        e.swap(0, 1);
        let mut ec = p.coms.clone();
        ec.swap(0, 1);
        check(ctx, "pi-swap-proofs", "swap the statements of proofs 0 and 1".into(), &p.proof, &e, &ec);
    }
    // other transcript hash
    ctx.count("mutant:other-hash");
    match verify::<H2>(&m.params, vk, nc, &p.insts, &p.coms, &p.proof) {
        Ok(false) => {}
        other => ctx.oracle_fail("accepted-mutant:other-hash", "proof verified under a different transcript hash", json!({"case": desc, "result": format!("{other:?}")})),
    }
}

/// Density: EVERY byte position of the proof gets one substitution (XOR with a seeded non-zero mask); all must be
/// rejected. The evidence records the number of positions covered and the proof length (they must be equal).
fn byte_cover<H: TranscriptHash>(ctx: &mut Ctx, hname: &str, m: &Member, p: &Proven, seed: u64)
where
    F: Hashable<H> + Sampleable<H>,
    G1Projective: Hashable<H>,
{
    let mut rng = ctx.rng(&format!("bytecover{seed}"));
    let vk = m.pk.get_vk();
    let mut covered = 0u64;
    for i in 0..p.proof.len() {
        let mask: u8 = rng.gen_range(1..=255);
        let mut pr = p.proof.clone();
        pr[i] ^= mask;
        covered += 1;
        match verify::<H>(&m.params, vk, m.fp.n_committed, &p.insts, &p.coms, &pr) {
            Ok(false) => {}
            r => ctx.oracle_fail(
                &format!("accepted-mutant:byte-cover:{hname}"),
                "verifier accepted (or panicked on) a proof with one byte changed",
                json!({"params": format!("{:?}", m.fp), "k": m.k, "seed": seed, "byte": i, "mask": mask, "result": format!("{r:?}"), "proof": hex(&p.proof)}),
            ),
        }
    }
    ctx.count_n(&format!("mutant:byte-cover:{hname}"), covered);
    ctx.set_extra(&format!("byte_cover_{hname}"), json!({"proof_len": p.proof.len(), "positions_covered": covered, "elements": p.layout.len()}));
}

fn wrong_vk(ctx: &mut Ctx, m: &Member, p: &Proven, others: &[(&str, &Member)]) {
    for (class, o) in others {
        ctx.count(&format!("mutant:vk-{class}"));
        let r = verify::<Blake2bState>(&o.params, o.pk.get_vk(), m.fp.n_committed, &p.insts, &p.coms, &p.proof);
        match r {
            Ok(false) => {}
            other => ctx.oracle_fail(
                &format!("accepted-mutant:vk-{class}"),
                "proof verified (or verifier panicked) under a different verifying key",
                json!({"params": format!("{:?}", m.fp), "other": format!("{:?}", o.fp), "other_k": o.k, "result": format!("{other:?}")}),
            ),
        }
    }
}

fn scalar_cases(ctx: &mut Ctx) {
    let r = num_bigint::BigUint::parse_bytes(b"73eda753299d7d483339d80809a1d80553bda402fffe5bfeffffffff00000001", 16).unwrap();
    let one = num_bigint::BigUint::from(1u8);
    let mut vals = vec![num_bigint::BigUint::from(0u8), one.clone(), &r - &one, r.clone(), &r + &one, (&one << 255u32) - &one, (&one << 256u32) - &one, &r - num_bigint::BigUint::from(2u8), &r << 1u32];
    let mut rng = ctx.rng("scalars");
    for _ in 0..40 {
        let mut b = [0u8; 32];
        rng.fill(&mut b);
        vals.push(num_bigint::BigUint::from_bytes_le(&b));
    }
    for v in vals {
        let mut b = v.to_bytes_le();
        if b.len() > 32 {
            continue;
        }
        b.resize(32, 0);
        let hex: String = b.iter().map(|x| format!("{x:02x}")).collect();
        // the decoder used by the transcript for scalars
        let mut rd = &b[..];
        let got = <F as Hashable<Blake2bState>>::read(&mut rd);
        let ans = match got {
            Ok(x) => format!("some {}", mzkh::fe_hex(&x)),
            Err(_) => "none".to_string(),
        };
        ctx.case("scalar", true, &format!("scalar {hex}"), &ans);
        let mut rd = &b[..];
        let got = <F as Hashable<PoseidonState<F>>>::read(&mut rd);
        let ans = match got {
            Ok(x) => format!("some {}", mzkh::fe_hex(&x)),
            Err(_) => "none".to_string(),
        };
        ctx.case("scalar-poseidon", true, &format!("scalar {hex}"), &ans);
    }
}

/// Statement part of an `absorbed` request: `nc= vk= coms= cols=`.
fn stmt_string(m: &Member, vk: &VerifyingKey<F, Scheme>, p: &Proven) -> String {
    let nc = m.fp.n_committed;
    let coms = p
        .coms
        .iter()
        .map(|cs| if cs.is_empty() { "none".to_string() } else { cs.iter().map(absorb::point_compressed_hex).collect::<Vec<_>>().join(",") })
        .collect::<Vec<_>>()
        .join(";");
    let cols = p
        .insts
        .iter()
        .map(|cols| {
            let plain = &cols[nc..];
            if plain.is_empty() {
                "none".to_string()
            } else {
                plain.iter().map(|c| if c.is_empty() { "-".to_string() } else { c.iter().map(mzkh::fe_hex).collect::<Vec<_>>().join(",") }).collect::<Vec<_>>().join("|")
            }
        })
        .collect::<Vec<_>>()
        .join(";");
    format!("nc={} vk={} coms={} cols={}", nc, mzkh::fe_hex(&vk.transcript_repr()), coms, cols)
}

/// The real verifier on top of a recording hash state: everything it absorbs and squeezes.
fn hash_log<HR: TranscriptHash>(m: &Member, p: &Proven) -> (Result<bool, String>, Vec<HEv>)
where
    F: Hashable<HR> + Sampleable<HR>,
    G1Projective: Hashable<HR>,
{
    let nc = m.fp.n_committed;
    let com_refs: Vec<&[G1Projective]> = p.coms.iter().map(|c| &c[..]).collect();
    let plain: Vec<Vec<&[F]>> = p.insts.iter().map(|cols| cols[nc..].iter().map(|c| &c[..]).collect()).collect();
    let plain2: Vec<&[&[F]]> = plain.iter().map(|c| &c[..]).collect();
    take_hlog();
    let r = mzkh::catch(|| {
        let mut vt = CircuitTranscript::<HR>::init_from_bytes(&p.proof);
        let g = match prepare::<F, Scheme, _>(m.pk.get_vk(), &com_refs, &plain2, &mut vt) {
            Ok(g) => g,
            Err(_) => return false,
        };
        if vt.assert_empty().is_err() {
            return false;
        }
        g.verify(&m.params.verifier_params()).is_ok()
    });
    (r, take_hlog())
}

/// Correspondence `absorbed`: the framed stream the transcript hash absorbed for a real proof must be
/// what the model derives from the statement and the PARSED proof elements.
fn absorbed_case(ctx: &mut Ctx, m: &Member, p: &Proven, poseidon: bool) {
    let (r, log) = if poseidon { hash_log::<RecPoseidon>(m, p) } else { hash_log::<RecBlake>(m, p) };
    if r != Ok(true) {
        ctx.oracle_fail(
            "honest-rejected:recording-hash",
            "honest proof rejected when the transcript hash is wrapped by a logging state (must be transparent)",
            json!({"params": format!("{:?}", m.fp), "poseidon": poseidon, "result": format!("{r:?}")}),
        );
        return;
    }
    let ans = if poseidon { poseidon_answer(&log) } else { blake_answer(&log) };
    let n_abs = log.iter().filter(|e| matches!(e, HEv::AbsorbB(_) | HEv::AbsorbP(_))).count();
    ctx.count_n(if poseidon { "absorbed-inputs:poseidon" } else { "absorbed-inputs:blake" }, n_abs as u64);
    let shape = shape::shape_string(&m.pk, m.k);
    let op = format!("absorbed {} {} {} proof={}", if poseidon { "poseidon" } else { "blake" }, shape, stmt_string(m, m.pk.get_vk(), p), hex(&p.proof));
    ctx.case(if poseidon { "absorbed-poseidon" } else { "absorbed-blake" }, true, &op, &ans);
}

/// Parse-level verdict of the real verifier: `ok <#elements>`, `reject <index of the failing element>`,
/// `trailing <#bytes>`.
fn parse_level<H: TranscriptHash>(m: &Member, p: &Proven, proof: &[u8]) -> String
where
    F: Hashable<H> + Sampleable<H>,
    G1Projective: Hashable<H>,
{
    let nc = m.fp.n_committed;
    let com_refs: Vec<&[G1Projective]> = p.coms.iter().map(|c| &c[..]).collect();
    let plain: Vec<Vec<&[F]>> = p.insts.iter().map(|cols| cols[nc..].iter().map(|c| &c[..]).collect()).collect();
    let plain2: Vec<&[&[F]]> = plain.iter().map(|c| &c[..]).collect();
    take_log();
    let r = mzkh::catch(|| {
        let mut vt = RecordingTranscript::<H>::init_from_bytes(proof);
        match prepare::<F, Scheme, _>(m.pk.get_vk(), &com_refs, &plain2, &mut vt) {
            Ok(_) => {
                if vt.assert_empty().is_ok() {
                    0
                } else {
                    1
                }
            }
            Err(_) => 2,
        }
    });
    let ev = take_log();
    let reads = ev.iter().filter(|e| e.kind == 'R').count();
    let consumed: usize = ev.iter().filter(|e| e.kind == 'R').map(|e| e.bytes.len()).sum();
    match r {
        Ok(0) => format!("ok {reads}"),
        Ok(1) => format!("trailing {}", proof.len() - consumed),
        Ok(_) => format!("reject {reads}"),
        Err(pn) => format!("panic {pn}"),
    }
}

/// Correspondence `parse`: for sampled element-level mutants and the length edits, the model predicts
/// whether (and at which element) the verifier fails at decoding level.
fn parse_cases<H: TranscriptHash>(ctx: &mut Ctx, m: &Member, p: &Proven, n_elems: usize, seed: u64)
where
    F: Hashable<H> + Sampleable<H>,
    G1Projective: Hashable<H>,
{
    let shape = shape::shape_string(&m.pk, m.k);
    let lens = p
        .insts
        .iter()
        .map(|cols| mzkh::join(&cols[m.fp.n_committed..].iter().map(|c| c.len()).collect::<Vec<_>>()))
        .collect::<Vec<_>>()
        .join("|");
    let cfg = format!("np={} nc={} lens={}", p.insts.len(), m.fp.n_committed, lens);
    let emit = |ctx: &mut Ctx, class: &str, proof: &[u8]| {
        let ans = parse_level::<H>(m, p, proof);
        ctx.case(&format!("parse:{class}"), true, &format!("parse {shape} {cfg} proof={}", hex(proof)), &ans);
    };
    emit(ctx, "honest", &p.proof);
    let mut rng = ctx.rng(&format!("parse{seed}"));
    let mut idxs: Vec<usize> = vec![0, p.layout.len() - 1];
    for _ in 0..n_elems {
        idxs.push(rng.gen_range(0..p.layout.len()));
    }
    for idx in idxs {
        let (off, ty) = p.layout[idx];
        let size = if ty == 'G' { 48 } else { 32 };
        let mut variants: Vec<(&str, Vec<u8>)> = vec![];
        if ty == 'G' {
            variants.push(("point-other-valid", other_point(idx)));
            variants.push(("point-invalid", vec![0xff; 48]));
            let mut b = p.proof[off..off + size].to_vec();
            b[0] &= 0x7f;
            variants.push(("point-flag-cleared", b));
            let mut b = p.proof[off..off + size].to_vec();
            b[0] ^= 0x20; // the other square root: a valid point (-P)
            variants.push(("point-negated", b));
            let mut b = p.proof[off..off + size].to_vec();
            b[47] ^= 1; // neighbouring abscissa: on the curve or not, (almost) never in the subgroup
            variants.push(("point-x-flip", b));
        } else {
            let mut b = p.proof[off..off + size].to_vec();
            b[0] ^= 1;
            variants.push(("scalar-other", b));
            variants.push(("scalar-ff", vec![0xff; 32]));
            let v = num_bigint::BigUint::from_bytes_le(&p.proof[off..off + size]) + num_bigint::BigUint::parse_bytes(b"73eda753299d7d483339d80809a1d80553bda402fffe5bfeffffffff00000001", 16).unwrap();
            let mut b = v.to_bytes_le();
            if b.len() <= 32 {
                b.resize(32, 0);
                variants.push(("scalar-plus-modulus", b));
            }
        }
        for (class, bytes) in variants {
            let mut pr = p.proof.clone();
            pr[off..off + size].copy_from_slice(&bytes);
            emit(ctx, class, &pr);
        }
    }
    let mut pr = p.proof.clone();
    pr.push(0);
    emit(ctx, "trailing-byte", &pr);
    pr.extend_from_slice(&[7u8; 40]);
    emit(ctx, "trailing-bytes", &pr);
    emit(ctx, "truncated-byte", &p.proof[..p.proof.len() - 1]);
    emit(ctx, "truncated-element", &p.proof[..p.proof.len() - 48]);
    emit(ctx, "truncated-half", &p.proof[..p.proof.len() / 2]);
    emit(ctx, "empty", &[]);
}

/// Correspondence `point` / `pointinput`: the two point readers of the transcript on boundary encodings,
/// and `to_input` of points under both hashes.
fn point_cases(ctx: &mut Ctx) {
    let mut cands: Vec<(&str, Vec<u8>)> = vec![];
    let enc = |p: &G1Projective| p.to_affine().to_bytes().as_ref().to_vec();
    let g = G1Projective::generator();
    let mut rng = ctx.rng("points");
    let n_rand = if ctx.quick() { 12 } else { 60 };
    let mut pts: Vec<G1Projective> = vec![g, g.double(), -g, G1Projective::identity()];
    for _ in 0..n_rand {
        let mut b = [0u8; 64];
        rng.fill(&mut b[..]);
        pts.push(g * F::from_uniform_bytes(&b));
    }
    for p in &pts {
        let b = enc(p);
        cands.push(("valid", b.clone()));
        let mut c = b.clone();
        c[0] ^= 0x20;
        cands.push(("sign-flipped", c));
        let mut c = b.clone();
        c[0] &= 0x7f;
        cands.push(("compression-flag-cleared", c));
        let mut c = b.clone();
        c[0] |= 0x40;
        cands.push(("infinity-flag-set", c));
        let mut c = b.clone();
        c[47] ^= 1;
        cands.push(("x-neighbour", c));
    }
    // infinity spellings
    let mut inf = vec![0u8; 48];
    inf[0] = 0xc0;
    cands.push(("infinity", inf.clone()));
    let mut c = inf.clone();
    c[0] = 0xe0;
    cands.push(("infinity-with-sign", c));
    let mut c = inf.clone();
    c[47] = 1;
    cands.push(("infinity-with-x", c));
    let mut c = inf.clone();
    c[0] = 0xc1;
    cands.push(("infinity-with-x-high", c));
    cands.push(("all-ff", vec![0xff; 48]));
    cands.push(("all-zero", vec![0; 48]));
    // x = p, p - 1, p + 1 (non-canonical abscissa / boundary), x = 0..8 with both signs (small x: on the curve
    // but outside the subgroup, or not on the curve; x = 0 is rejected by blst)
    let pmod = num_bigint::BigUint::parse_bytes(b"1a0111ea397fe69a4b1ba7b6434bacd764774b84f38512bf6730d2a0f6b0f6241eabfffeb153ffffb9feffffffffaaab", 16).unwrap();
    let one = num_bigint::BigUint::from(1u8);
    let mut xs = vec![pmod.clone(), &pmod - &one, &pmod + &one, &pmod + num_bigint::BigUint::from(3u8)];
    for i in 0u32..9 {
        xs.push(num_bigint::BigUint::from(i));
    }
    for x in xs {
        let mut b = x.to_bytes_be();
        while b.len() < 48 {
            b.insert(0, 0);
        }
        for flag in [0x80u8, 0xa0] {
            let mut c = b.clone();
            c[0] |= flag;
            cands.push(("raw-x", c));
        }
    }
    for _ in 0..n_rand {
        let mut b = vec![0u8; 48];
        rng.fill(&mut b[..]);
        b[0] = (b[0] & 0x1f) | 0x80 | if rng.gen_bool(0.5) { 0x20 } else { 0 };
        // keep x below p most of the time
        b[0] &= 0x8f | 0x20;
        cands.push(("random-x", b));
    }
    cands.push(("short", vec![0x80; 47]));
    for (class, b) in cands {
        let (a, c) = if b.len() == 48 { absorb::point_reads(&b) } else { ("none".to_string(), "none".to_string()) };
        if b.len() == 48 {
            ctx.case(&format!("point:{class}"), true, &format!("point {}", hex(&b)), &a);
            ctx.case(&format!("point-poseidon:{class}"), true, &format!("point {}", hex(&b)), &c);
        } else {
            // fewer than 48 bytes: both readers fail on read_exact
            let mut rd = &b[..];
            let r1 = <G1Projective as Hashable<Blake2bState>>::read(&mut rd).is_err();
            let mut rd = &b[..];
            let r2 = <G1Projective as Hashable<PoseidonState<F>>>::read(&mut rd).is_err();
            ctx.case(&format!("point:{class}"), true, &format!("point {}", hex(&b)), if r1 && r2 { "none" } else { "some" });
        }
    }
    for p in &pts {
        ctx.case("pointinput", true, &format!("pointinput {}", point_coords(p)), &absorb::point_inputs(p));
    }
    let mut rng = ctx.rng("scalar-inputs");
    for _ in 0..20 {
        let mut b = [0u8; 64];
        rng.fill(&mut b[..]);
        let v = F::from_uniform_bytes(&b);
        if !absorb::scalar_input_consistent(&v) {
            ctx.oracle_fail("scalar-to-input", "Hashable::to_input / to_bytes of a scalar is not its canonical 32-byte / one-element form", json!({"v": mzkh::fe_hex(&v)}));
        }
    }
}

fn uncompressed(p: &G1Projective) -> Vec<u8> {
    let a = p.to_affine();
    if bool::from(a.is_identity()) {
        let mut v = vec![0u8; 96];
        v[0] = 0x40;
        v
    } else {
        let mut v = a.x().to_bytes_be().to_vec();
        v.extend_from_slice(&a.y().to_bytes_be());
        v
    }
}

/// The buffer `VerifyingKey::from_parts` hashes, rebuilt from the public accessors in the order of the model;
/// it is the implementation's answer only if its hash IS the key's `transcript_repr`.
fn vk_input_case(ctx: &mut Ctx, class: &str, vk: &VerifyingKey<F, Scheme>) {
    let k = vk.get_domain().k();
    let dom = format!("{:?}", vk.get_domain().pinned());
    let cs = format!("{:?}", vk.cs().pinned());
    let fixed = vk.fixed_commitments();
    let perm = vk.permutation().commitments();
    let mut buf: Vec<u8> = vec![0x03, k as u8];
    buf.extend_from_slice(&(fixed.len() as u32).to_le_bytes());
    for c in fixed {
        buf.extend_from_slice(&uncompressed(c));
    }
    buf.extend_from_slice(&(perm.len() as u32).to_le_bytes());
    for c in perm {
        buf.extend_from_slice(&uncompressed(c));
    }
    buf.extend_from_slice(dom.as_bytes());
    buf.extend_from_slice(cs.as_bytes());
    let h = blake2b_simd::Params::new().hash_length(64).personal(b"Halo2-Verify-Key").to_state().update(&buf).finalize();
    let repr = F::from_uniform_bytes(h.as_array());
    let ans = if repr == vk.transcript_repr() { hex(&buf) } else { "MISMATCH transcript_repr is not the hash of the modelled buffer".to_string() };
    let pts = |v: &[G1Projective]| if v.is_empty() { "none".to_string() } else { v.iter().map(point_coords).collect::<Vec<_>>().join(",") };
    ctx.case(
        &format!("vkinput:{class}"),
        true,
        &format!("vkinput k={} fixed={} perm={} domain={} cs={}", k, pts(fixed), pts(perm), hex(dom.as_bytes()), hex(cs.as_bytes())),
        &ans,
    );
}

/// One component of a verifying key changed at a time (through `VerifyingKey::from_bytes` on edited bytes,
/// or another constraint system — only parameters that certainly change the constraint system: gates, lookups,
/// column counts): `transcript_repr` must change, and the honest proof must be rejected.
fn vk_mutations(ctx: &mut Ctx, m: &Member, p: &Proven, other_cs: &[(&str, &FamParams)], all: bool) {
    let vk = m.pk.get_vk();
    vk_input_case(ctx, "honest", vk);
    mini::csdebug_case(ctx, "family", vk);
    let bytes = vk.to_bytes(SerdeFormat::RawBytes);
    let nf = vk.fixed_commitments().len();
    let np = vk.permutation().commitments().len();
    if bytes.len() != 6 + 96 * (nf + np) {
        ctx.oracle_fail("vk-bytes-layout", "RawBytes verifying key is not 6 header bytes + 96 per commitment", json!({"len": bytes.len(), "nf": nf, "np": np}));
        return;
    }
    let mut muts: Vec<(String, Vec<u8>, FamParams)> = vec![];
    for dk in [1i32, -1, 2] {
        let mut b = bytes.clone();
        b[1] = (b[1] as i32 + dk) as u8;
        muts.push((format!("k{dk:+}"), b, m.fp.clone()));
    }
    let other = uncompressed(&(G1Projective::generator() * F::from(77u64)));
    let mut rng = ctx.rng("vkmut");
    let mut slots: Vec<usize> = (0..nf + np).collect();
    if !all && slots.len() > 6 {
        let mut pick = vec![0, nf - 1, nf, nf + np - 1];
        pick.push(rng.gen_range(0..nf));
        pick.push(nf + rng.gen_range(0..np.max(1)).min(np.saturating_sub(1)));
        pick.retain(|i| *i < nf + np);
        pick.sort();
        pick.dedup();
        slots = pick;
    }
    for i in slots {
        let mut b = bytes.clone();
        b[6 + 96 * i..6 + 96 * (i + 1)].copy_from_slice(&other);
        muts.push((if i < nf { format!("fixed[{i}]") } else { format!("perm[{}]", i - nf) }, b.clone(), m.fp.clone()));
        if i + 1 < nf + np && (i + 1 < nf) == (i < nf) {
            // swap two neighbouring commitments of the same kind
            let mut b = bytes.clone();
            let (x, y) = (bytes[6 + 96 * i..6 + 96 * (i + 1)].to_vec(), bytes[6 + 96 * (i + 1)..6 + 96 * (i + 2)].to_vec());
            if x != y {
                b[6 + 96 * i..6 + 96 * (i + 1)].copy_from_slice(&y);
                b[6 + 96 * (i + 1)..6 + 96 * (i + 2)].copy_from_slice(&x);
                muts.push((if i < nf { format!("fixed-swap[{i}]") } else { format!("perm-swap[{}]", i - nf) }, b, m.fp.clone()));
            }
        }
    }
    for (name, fp) in other_cs {
        muts.push((format!("cs:{name}"), bytes.clone(), (*fp).clone()));
    }
    for (name, b, fp) in muts {
        let class = name.split('[').next().unwrap().to_string();
        let r = mzkh::catch(|| VerifyingKey::<F, Scheme>::from_bytes::<FamCircuit>(&b, SerdeFormat::RawBytes, fp.clone()));
        let vk2 = match r {
            Ok(Ok(v)) => v,
            Ok(Err(_)) => {
                ctx.count(&format!("vkmut-unreadable:{class}"));
                continue;
            }
            Err(pn) => {
                ctx.oracle_fail(&format!("vkmut-read-panic:{class}"), "VerifyingKey::from_bytes panicked on an edited key", json!({"mutation": name, "panic": pn}));
                continue;
            }
        };
        ctx.count(&format!("vkmut:{class}"));
        vk_input_case(ctx, &class, &vk2);
        let verdict = verify::<Blake2bState>(&m.params, &vk2, m.fp.n_committed, &p.insts, &p.coms, &p.proof);
        if vk2.transcript_repr() == vk.transcript_repr() {
            ctx.oracle_fail(
                &format!("vk-component-not-in-repr:{class}"),
                "a changed component of the verifying key leaves transcript_repr unchanged",
                json!({"params": format!("{:?}", m.fp), "mutation": name, "verdict_on_honest_proof": format!("{verdict:?}")}),
            );
        }
        match verdict {
            Ok(false) => {}
            other => ctx.oracle_fail(
                &format!("accepted-mutant:vkmut-{class}"),
                "honest proof verified (or verifier panicked) under a verifying key with one component changed",
                json!({"params": format!("{:?}", m.fp), "mutation": name, "result": format!("{other:?}")}),
            ),
        }
    }
}

fn main() {
    let mut ctx = Ctx::from_args("C03");
    let mut rng = ctx.rng("family");
    let (n_members, n_flips) = match ctx.tier.as_str() {
        "quick" => (8, 128),
        "thorough" => (16, 4000), // bounded: the all-bit-flip sweep of every proof ran for more than an hour; every byte position is still covered by the entry-point sweep
        _ => (10, 600),
    };
    scalar_cases(&mut ctx);
    point_cases(&mut ctx);
    entry::run(&mut ctx);
    mini::run(&mut ctx);
    let n_parse = if ctx.quick() { 3 } else { 12 };
    let every = FamParams {
        n_adv0: 4,
        n_adv1: 1,
        unblinded: true,
        n_committed: 1,
        n_plain: 2,
        gates: vec![GateKind::Mul, GateKind::LinRot, GateKind::Additive, GateKind::Chal],
        lookups: vec![LookupKind::Range, LookupKind::Pair],
        copies: true,
        const_copies: true,
        inst_copies: true,
        steps: 6,
        table_bits: 3,
    };
    let base = setup_member(&every, 31, 4);
    // wrong verifying keys: same circuit at another k; another circuit; same shape with other fixed content
    let other_k = setup_member(&every, 31, base.k + 1);
    let other_circuit = setup_member(&FamParams { gates: vec![GateKind::Mul, GateKind::LinRot, GateKind::Additive, GateKind::Complex], ..every.clone() }, 31, 4);
    let other_fixed = setup_member(&FamParams { steps: 5, ..every.clone() }, 31, base.k);
    for np in [1usize, 2] {
        if let Some(p) = prove::<Blake2bState>(&mut ctx, &base, np, 300 + np as u64) {
            absorbed_case(&mut ctx, &base, &p, false);
            parse_cases::<Blake2bState>(&mut ctx, &base, &p, n_parse, 300 + np as u64);
            if np == 1 {
                let all = !ctx.quick();
                vk_mutations(
                    &mut ctx,
                    &base,
                    &p,
                    &[
                        ("gates", &other_circuit.fp),
                        ("lookups", &FamParams { lookups: vec![LookupKind::Range], ..every.clone() }),
                        ("unblinded", &FamParams { unblinded: false, ..every.clone() }),
                        ("n-plain", &FamParams { n_plain: 3, ..every.clone() }),
                        ("n-adv", &FamParams { n_adv0: 5, ..every.clone() }),
                    ],
                    all,
                );
            }
            mutate_all::<Blake2bState, PoseidonState<F>>(&mut ctx, &base, &p, n_flips, 300 + np as u64);
            if np == 1 {
                byte_cover::<Blake2bState>(&mut ctx, "blake", &base, &p, 300);
            }
            wrong_vk(&mut ctx, &base, &p, &[("other-k", &other_k), ("other-circuit", &other_circuit), ("other-fixed", &other_fixed)]);
        }
    }
    // the same under the Poseidon transcript (its scalar/point readers are separate code)
    ctx.count("hash:poseidon");
    if let Some(p) = prove::<PoseidonState<F>>(&mut ctx, &base, 1, 310) {
        absorbed_case(&mut ctx, &base, &p, true);
        parse_cases::<PoseidonState<F>>(&mut ctx, &base, &p, n_parse, 310);
        mutate_all::<PoseidonState<F>, Blake2bState>(&mut ctx, &base, &p, n_flips, 310);
        byte_cover::<PoseidonState<F>>(&mut ctx, "poseidon", &base, &p, 310);
    }
    for i in 0..n_members {
        let fp = sample_params(&mut rng);
        let m = setup_member(&fp, 3000 + i as u64, 4);
        let np = rng.gen_range(1..=2);
        if i % 2 == 0 {
            if let Some(p) = prove::<Blake2bState>(&mut ctx, &m, np, 3000 + i as u64) {
                absorbed_case(&mut ctx, &m, &p, false);
                parse_cases::<Blake2bState>(&mut ctx, &m, &p, n_parse, 3000 + i as u64);
                if i % 4 == 0 {
                    vk_mutations(&mut ctx, &m, &p, &[], false);
                }
                mutate_all::<Blake2bState, PoseidonState<F>>(&mut ctx, &m, &p, n_flips, 3000 + i as u64);
            }
        } else if let Some(p) = prove::<PoseidonState<F>>(&mut ctx, &m, np, 3000 + i as u64) {
            absorbed_case(&mut ctx, &m, &p, true);
            parse_cases::<PoseidonState<F>>(&mut ctx, &m, &p, n_parse, 3000 + i as u64);
            mutate_all::<PoseidonState<F>, Blake2bState>(&mut ctx, &m, &p, n_flips, 3000 + i as u64);
        }
    }
    ctx.finish();
}
