//! A tiny hand-made circuit whose verifying key can be varied ONE component at a time, for what the generated
//! family cannot isolate:
//!
//! * key variants of the same constraint system: one selector row differs / one copy constraint differs / one fixed
//!   cell differs / `k` differs — `transcript_repr` must differ and the base proof must be rejected;
//! * REGRESSION of the repaired finding `vk-component-not-in-repr:advice-phase-unqueried` (fixed in /repo caa493e):
//!   the phase of an advice column that no gate, lookup or copy constraint queries, in a circuit without challenges.
//!   `Debug for PinnedConstraintSystem` used to print `advice_column_phase` only when `num_challenges > 0`, so two
//!   circuits that differ only there had the same `transcript_repr` although their verifiers read the advice
//!   commitments in different orders (and a proof for one was accepted under the key of the other when the
//!   unqueried column duplicated a queried unblinded column). Oracle: the two `transcript_repr`s differ and the
//!   cross-verification is rejected;
//! * `csdebug` correspondence lines: the actual `format!("{:?}", cs.pinned())` string, split into its top-level
//!   fields by the harness; the Lean driver splits the same string itself and checks the field names against the
//!   generated order list (`Gen.csDebugOrder`);
//! * public-input edits across columns (swap the two columns, move, extend, truncate) and a search for two different
//!   statements that are ABSORBED identically (the real `prepare` is run on an empty proof under a recording
//!   transcript: everything absorbed before the first read is the statement).

use blake2b_simd::State as Blake2bState;
use ff::Field;
use midnight_curves::{Bls12, Fq as F};
use midnight_proofs::{
    circuit::{Layouter, SimpleFloorPlanner, Value},
    plonk::{
        create_proof, keygen_pk, keygen_vk_with_k, prepare, Advice, Circuit, Column, ConstraintSystem, Constraints, Error, Fixed, Instance,
        ProvingKey, SecondPhase, Selector, VerifyingKey,
    },
    poly::{
        kzg::{params::ParamsKZG, KZGCommitmentScheme},
        Rotation,
    },
    transcript::Transcript,
};
use mzkh::{
    recording::{take_log, RecordingTranscript},
    Ctx,
};
use rand::SeedableRng;
use rand_chacha::ChaCha8Rng;
use serde_json::json;

use crate::absorb::hex;

type Scheme = KZGCommitmentScheme<Bls12>;

#[derive(Clone, Debug, PartialEq)]
pub struct MiniParams {
    /// phase of the advice column `u` that nothing queries (0 or 1); `None` = no such column
    pub u_phase: Option<u8>,
    /// `u` and `b` are unblinded columns (deterministic commitments)
    pub unblinded: bool,
    /// rows on which the multiplication gate is switched on
    pub sel_rows: Vec<usize>,
    /// `b[copy_row]` is tied to the second instance column
    pub copy_row: usize,
    /// value of the fixed cell of row 3 (not under any selector)
    pub fixed_val: u64,
}

impl Default for MiniParams {
    fn default() -> Self {
        MiniParams { u_phase: Some(0), unblinded: false, sel_rows: vec![0, 1], copy_row: 0, fixed_val: 9 }
    }
}

#[derive(Clone)]
pub struct MiniConfig {
    a: Column<Advice>,
    u: Option<Column<Advice>>,
    b: Column<Advice>,
    f: Column<Fixed>,
    s: Selector,
    i0: Column<Instance>,
    i1: Column<Instance>,
}

#[derive(Clone)]
pub struct MiniCircuit {
    pub params: MiniParams,
    /// `u` carries the same values as `b`
    pub u_equals_b: bool,
}

const A: [u64; 4] = [2, 3, 4, 5];
const B: [u64; 4] = [3, 4, 5, 6];

impl MiniCircuit {
    pub fn instances(&self) -> Vec<Vec<F>> {
        vec![vec![F::from(A[0])], vec![F::from(B[self.params.copy_row])]]
    }
}

impl Circuit<F> for MiniCircuit {
    type Config = MiniConfig;
    type FloorPlanner = SimpleFloorPlanner;
    type Params = MiniParams;

    fn without_witnesses(&self) -> Self {
        self.clone()
    }

    fn params(&self) -> MiniParams {
        self.params.clone()
    }

    fn configure(_meta: &mut ConstraintSystem<F>) -> MiniConfig {
        unreachable!("configure_with_params is used")
    }

    fn configure_with_params(meta: &mut ConstraintSystem<F>, p: MiniParams) -> MiniConfig {
        let a = meta.advice_column();
        let u = p.u_phase.map(|ph| match (ph, p.unblinded) {
            (0, false) => meta.advice_column(),
            (0, true) => meta.unblinded_advice_column(),
            (_, false) => meta.advice_column_in(SecondPhase),
            (_, true) => meta.unblinded_advice_column_in(SecondPhase),
        });
        let b = if p.unblinded { meta.unblinded_advice_column() } else { meta.advice_column() };
        let f = meta.fixed_column();
        let s = meta.selector();
        let i0 = meta.instance_column();
        let i1 = meta.instance_column();
        meta.enable_equality(a);
        meta.enable_equality(b);
        meta.enable_equality(i0);
        meta.enable_equality(i1);
        meta.create_gate("mul", |m| {
            let a = m.query_advice(a, Rotation::cur());
            let b = m.query_advice(b, Rotation::cur());
            let f = m.query_fixed(f, Rotation::cur());
            Constraints::with_selector(s, vec![a * b - f])
        });
        MiniConfig { a, u, b, f, s, i0, i1 }
    }

    fn synthesize(&self, c: MiniConfig, mut layouter: impl Layouter<F>) -> Result<(), Error> {
        let (a0, bc) = layouter.assign_region(
            || "mini",
            |mut region| {
                let mut a0 = None;
                let mut bc = None;
                for r in 0..4 {
                    let av = region.assign_advice(|| "a", c.a, r, || Value::known(F::from(A[r])))?;
                    let bv = region.assign_advice(|| "b", c.b, r, || Value::known(F::from(B[r])))?;
                    if let Some(u) = c.u {
                        let v = if self.u_equals_b { F::from(B[r]) } else { F::from(100 + r as u64) };
                        region.assign_advice(|| "u", u, r, || Value::known(v))?;
                    }
                    let fv = if r == 3 { F::from(self.params.fixed_val) } else { F::from(A[r] * B[r]) };
                    region.assign_fixed(|| "f", c.f, r, || Value::known(fv))?;
                    if self.params.sel_rows.contains(&r) {
                        c.s.enable(&mut region, r)?;
                    }
                    if r == 0 {
                        a0 = Some(av);
                    }
                    if r == self.params.copy_row {
                        bc = Some(bv);
                    }
                }
                Ok((a0.unwrap(), bc.unwrap()))
            },
        )?;
        layouter.constrain_instance(a0.cell(), c.i0, 0)?;
        layouter.constrain_instance(bc.cell(), c.i1, 0)
    }
}

pub struct Mini {
    pub c: MiniCircuit,
    pub k: u32,
    pub params: ParamsKZG<Bls12>,
    pub pk: ProvingKey<F, Scheme>,
}

pub fn setup(p: &MiniParams, u_equals_b: bool, k: u32) -> Mini {
    let c = MiniCircuit { params: p.clone(), u_equals_b };
    let params = ParamsKZG::<Bls12>::unsafe_setup(k, ChaCha8Rng::seed_from_u64(k as u64 + 99));
    let vk = keygen_vk_with_k::<F, Scheme, _>(&params, &c, k).expect("mini keygen");
    let pk = keygen_pk(vk, &c).expect("mini keygen_pk");
    Mini { c, k, params, pk }
}

pub fn prove(m: &Mini, insts: &[Vec<F>], seed: u64) -> Result<Vec<u8>, String> {
    let cols: Vec<&[F]> = insts.iter().map(|c| &c[..]).collect();
    mzkh::catch(|| {
        let mut tr = RecordingTranscript::<Blake2bState>::init();
        create_proof::<F, Scheme, _, _>(&m.params, &m.pk, &[m.c.clone()], 0, &[&cols[..]], ChaCha8Rng::seed_from_u64(seed), &mut tr).map(|_| tr.finalize())
    })
    .and_then(|r| r.map_err(|e| format!("{e:?}")))
}

fn accepts(m: &Mini, vk: &VerifyingKey<F, Scheme>, insts: &[Vec<F>], proof: &[u8]) -> Result<bool, String> {
    crate::verify::<Blake2bState>(&m.params, vk, 0, &[insts.to_vec()], &[vec![]], proof)
}

/// Top-level fields of a `debug_struct` rendering `Name { f1: v1, f2: v2 }` → [(name, byte length of the value)].
pub fn split_debug_struct(s: &str) -> Option<(String, Vec<(String, usize)>)> {
    let open = s.find(" { ")?;
    let name = s[..open].to_string();
    if !s.ends_with(" }") {
        return None;
    }
    let body = &s[open + 3..s.len() - 2];
    let mut fields = vec![];
    let mut depth = 0i32;
    let mut start = 0;
    let bytes = body.as_bytes();
    let mut i = 0;
    let mut parts = vec![];
    while i < bytes.len() {
        match bytes[i] {
            b'(' | b'[' | b'{' => depth += 1,
            b')' | b']' | b'}' => depth -= 1,
            b',' if depth == 0 && i + 1 < bytes.len() && bytes[i + 1] == b' ' => {
                parts.push(&body[start..i]);
                start = i + 2;
                i += 1;
            }
            _ => {}
        }
        i += 1;
    }
    parts.push(&body[start..]);
    for p in parts {
        let colon = p.find(": ")?;
        fields.push((p[..colon].to_string(), p.len() - colon - 2));
    }
    Some((name, fields))
}

pub fn csdebug_case(ctx: &mut Ctx, class: &str, vk: &VerifyingKey<F, Scheme>) {
    let s = format!("{:?}", vk.cs().pinned());
    let ans = match split_debug_struct(&s) {
        Some((name, fields)) => format!("{name} {}", fields.iter().map(|(n, l)| format!("{n}:{l}")).collect::<Vec<_>>().join(",")),
        None => "unparsed".to_string(),
    };
    let nch = vk.cs().challenge_phase().len();
    let ap = vk.cs().advice_column_phase();
    let aps = if ap.is_empty() { "none".to_string() } else { mzkh::join(&ap) };
    ctx.case(&format!("csdebug:{class}"), true, &format!("csdebug nch={nch} ap={aps} cs={}", hex(s.as_bytes())), &ans);
}

/// Everything the real `prepare` absorbs for a statement before it reads the first proof element.
fn absorbed_statement(vk: &VerifyingKey<F, Scheme>, insts: &[Vec<F>]) -> Vec<Vec<u8>> {
    let cols: Vec<&[F]> = insts.iter().map(|c| &c[..]).collect();
    take_log();
    let _ = mzkh::catch(|| {
        let mut t = RecordingTranscript::<Blake2bState>::init_from_bytes(&[]);
        let _ = prepare::<F, Scheme, _>(vk, &[&[]], &[&cols[..]], &mut t);
    });
    take_log().into_iter().take_while(|e| e.kind != 'R').filter(|e| e.kind == 'C').map(|e| e.bytes).collect()
}

pub fn run(ctx: &mut Ctx) {
    let k = 4;
    let base_p = MiniParams::default();
    let base = setup(&base_p, false, k);
    let vk = base.pk.get_vk();
    let insts = base.c.instances();
    let proof = match prove(&base, &insts, 0xC03_77) {
        Ok(p) => p,
        Err(e) => {
            ctx.oracle_fail("mini:honest-proving", "honest proving of the mini circuit failed", json!({"error": e}));
            return;
        }
    };
    if accepts(&base, vk, &insts, &proof) != Ok(true) {
        ctx.oracle_fail("mini:honest-rejected", "honest proof of the mini circuit rejected", json!({}));
        return;
    }
    csdebug_case(ctx, "mini-base", vk);

    // --- one key component at a time
    let variants: Vec<(&str, MiniParams, u32)> = vec![
        ("selector-row", MiniParams { sel_rows: vec![0, 2], ..base_p.clone() }, k),
        ("selector-extra-row", MiniParams { sel_rows: vec![0, 1, 2], ..base_p.clone() }, k),
        ("copy-constraint", MiniParams { copy_row: 1, ..base_p.clone() }, k),
        ("fixed-cell", MiniParams { fixed_val: 10, ..base_p.clone() }, k),
        ("k", base_p.clone(), k + 1),
        ("no-unqueried-column", MiniParams { u_phase: None, ..base_p.clone() }, k),
    ];
    for (class, p, kk) in variants {
        let other = setup(&p, false, kk);
        let vk2 = other.pk.get_vk();
        ctx.count(&format!("mutant:minivk-{class}"));
        csdebug_case(ctx, &format!("mini-{class}"), vk2);
        if vk2.transcript_repr() == vk.transcript_repr() {
            ctx.oracle_fail(&format!("vk-component-not-in-repr:mini-{class}"), "a changed component of the verifying key leaves transcript_repr unchanged", json!({"variant": format!("{p:?}"), "k": kk}));
        }
        match accepts(&other, vk2, &insts, &proof) {
            Ok(false) => {}
            r => ctx.oracle_fail(&format!("accepted-mutant:minivk-{class}"), "proof verified (or verifier panicked) under a key with one component changed", json!({"variant": format!("{p:?}"), "k": kk, "result": format!("{r:?}")})),
        }
    }

    // --- regression (fixed caa493e): phase of an unqueried advice column, no challenge, must be in the key hash
    for (unblinded, same) in [(false, false), (true, true)] {
        let pa = MiniParams { u_phase: Some(1), unblinded, ..base_p.clone() };
        let pb = MiniParams { u_phase: Some(0), unblinded, ..base_p.clone() };
        let ma = setup(&pa, same, k);
        let mb = setup(&pb, same, k);
        let (va, vb) = (ma.pk.get_vk(), mb.pk.get_vk());
        let tag = if same { "u=b-unblinded" } else { "u-distinct" };
        csdebug_case(ctx, &format!("mini-phase1-{tag}"), va);
        let differ = va.cs().advice_column_phase() != vb.cs().advice_column_phase();
        let same_repr = va.transcript_repr() == vb.transcript_repr();
        let same_dbg = format!("{:?}", va.cs().pinned()) == format!("{:?}", vb.cs().pinned());
        ctx.count(&format!("vkgap:{tag}:phases-differ={differ}:same-repr={same_repr}:same-debug={same_dbg}"));
        let pra = prove(&ma, &insts, 0xC03_78);
        let prb = prove(&mb, &insts, 0xC03_79);
        let (Ok(pra), Ok(prb)) = (pra, prb) else {
            ctx.oracle_fail("mini:honest-proving-phase", "honest proving of the phase variants failed", json!({"tag": tag}));
            continue;
        };
        let own = (accepts(&ma, va, &insts, &pra), accepts(&mb, vb, &insts, &prb));
        if own != (Ok(true), Ok(true)) {
            ctx.oracle_fail("mini:honest-rejected-phase", "honest proof of a phase variant rejected", json!({"tag": tag, "result": format!("{own:?}")}));
            continue;
        }
        // the verifiers' reading orders differ: read-event shapes of the two honest verifications
        let order = |m: &Mini, v: &VerifyingKey<F, Scheme>, p: &[u8]| {
            take_log();
            let _ = accepts(m, v, &insts, p);
            take_log().iter().filter(|e| e.kind == 'R').map(|e| e.ty.clone()).collect::<Vec<_>>().join("")
        };
        let _ = (order(&ma, va, &pra), order(&mb, vb, &prb));
        let cross_ab = accepts(&mb, vb, &insts, &pra);
        let cross_ba = accepts(&ma, va, &insts, &prb);
        ctx.count(&format!("vkgap:{tag}:proofA-under-vkB={cross_ab:?}:proofB-under-vkA={cross_ba:?}"));
        if differ && same_repr {
            ctx.oracle_fail(
                &format!("vk-component-not-in-repr:advice-phase-unqueried:{tag}"),
                "two constraint systems that differ in the phase of an unqueried advice column (no challenge) have the same transcript_repr although their verifiers read the advice commitments in different orders",
                json!({"circuit_A": format!("{pa:?}"), "circuit_B": format!("{pb:?}"), "advice_column_phase_A": va.cs().advice_column_phase(), "advice_column_phase_B": vb.cs().advice_column_phase(),
                       "pinned_debug_equal": same_dbg, "proof_A_under_vk_B": format!("{cross_ab:?}"), "proof_B_under_vk_A": format!("{cross_ba:?}")}),
            );
        }
        for (dir, r) in [("A-under-B", &cross_ab), ("B-under-A", &cross_ba)] {
            if *r != Ok(false) && differ {
                ctx.oracle_fail(
                    &format!("accepted-mutant:vk-advice-phase:{tag}:{dir}"),
                    "a proof made for one circuit is accepted under the verifying key of a different circuit with the same transcript_repr",
                    json!({"circuit_A": format!("{pa:?}"), "circuit_B": format!("{pb:?}"), "u_equals_b": same, "direction": dir, "result": format!("{r:?}"), "proof_A": hex(&pra), "proof_B": hex(&prb)}),
                );
            }
        }
    }

    // --- public-input edits across the two columns (all must be rejected)
    let (x, y) = (insts[0][0], insts[1][0]);
    let z = F::ZERO;
    let edits: Vec<(&str, Vec<Vec<F>>)> = vec![
        ("pi-swap-columns", vec![vec![y], vec![x]]),
        ("pi-move-to-first-column", vec![vec![x, y], vec![]]),
        ("pi-move-to-second-column", vec![vec![], vec![x, y]]),
        ("pi-extend-first", vec![vec![x, z], vec![y]]),
        ("pi-extend-second", vec![vec![x], vec![y, z]]),
        ("pi-extend-both", vec![vec![x, z], vec![y, z]]),
        ("pi-truncate-first", vec![vec![], vec![y]]),
        ("pi-truncate-second", vec![vec![x], vec![]]),
        ("pi-value-first", vec![vec![x + F::ONE], vec![y]]),
        ("pi-value-second", vec![vec![x], vec![y + F::ONE]]),
        ("pi-drop-column", vec![vec![x]]),
        ("pi-extra-column", vec![vec![x], vec![y], vec![]]),
    ];
    for (class, e) in edits {
        ctx.count(&format!("mutant:mini-{class}"));
        match accepts(&base, vk, &e, &proof) {
            Ok(false) => {}
            r => ctx.oracle_fail(&format!("accepted-mutant:mini-{class}"), "verifier accepted (or panicked on) an edited public-input table", json!({"edit": class, "result": format!("{r:?}")})),
        }
    }

    // --- search for two different statements that are absorbed identically
    // all tables of two columns with at most 3 values in total over {0, 1, 2}
    let vals = [F::ZERO, F::ONE, F::from(2)];
    let mut tables: Vec<Vec<Vec<F>>> = vec![];
    for total in 0..=3usize {
        let mut seqs: Vec<Vec<F>> = vec![vec![]];
        for _ in 0..total {
            seqs = seqs.into_iter().flat_map(|s| vals.iter().map(move |v| { let mut t = s.clone(); t.push(*v); t })).collect();
        }
        for s in seqs {
            for cut in 0..=total {
                tables.push(vec![s[..cut].to_vec(), s[cut..].to_vec()]);
            }
        }
    }
    let mut seen: std::collections::BTreeMap<Vec<Vec<u8>>, Vec<Vec<F>>> = Default::default();
    let mut collisions = 0u64;
    for t in &tables {
        let key = absorbed_statement(vk, t);
        if let Some(prev) = seen.get(&key) {
            collisions += 1;
            if collisions <= 3 {
                // a colliding pair: is a proof for one accepted for the other? (provable only if the circuit's copy
                // constraints hold for it, so try the honest statement padded the same way)
                ctx.oracle_fail(
                    "instance-absorption-collision",
                    "two different public-input tables are absorbed into the transcript identically",
                    json!({"table_1": prev.iter().map(|c| c.iter().map(mzkh::fe_hex).collect::<Vec<_>>()).collect::<Vec<_>>(), "table_2": t.iter().map(|c| c.iter().map(mzkh::fe_hex).collect::<Vec<_>>()).collect::<Vec<_>>()}),
                );
            }
        } else {
            seen.insert(key, t.clone());
        }
    }
    ctx.count_n("instance-collision-search:tables", tables.len() as u64);
    ctx.count_n("instance-collision-search:collisions", collisions);
    // the accepted-mutant form of a collision: the honest statement with a trailing zero moved between the columns
    // (invisible to the evaluation, seen only by the length prefix)
    let padded = vec![vec![x, z], vec![y]];
    if let Ok(pp) = prove(&base, &padded, 0xC03_7a) {
        for (class, e) in [("pad-moved-to-second", vec![vec![x], vec![y, z]]), ("pad-dropped", vec![vec![x], vec![y]]), ("pad-doubled", vec![vec![x, z, z], vec![y]])] {
            ctx.count(&format!("mutant:mini-{class}"));
            match accepts(&base, vk, &e, &pp) {
                Ok(false) => {}
                r => ctx.oracle_fail(&format!("accepted-mutant:mini-{class}"), "a proof for a zero-padded public-input table is accepted for a differently padded table", json!({"edit": class, "result": format!("{r:?}")})),
            }
        }
        if accepts(&base, vk, &padded, &pp) != Ok(true) {
            ctx.oracle_fail("mini:honest-rejected-padded", "honest proof for a zero-padded public-input table rejected", json!({}));
        }
    }
}
