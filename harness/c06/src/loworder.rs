//! BLS12-381 G1 foreign chip on curve points OUTSIDE the prime-order subgroup.
//!
//! `ForeignEccChip::assign` / `point_from_coordinates` constrain a point to the curve only, and the
//! curve group of BLS12-381 G1 has cofactor `3·11²·10177²·859267²·52437899²`. `mul_by_u128` (behind
//! `mul_by_constant` for constants of at most 128 bits, and behind `windowed_msm` for `l·R`,
//! `15·R` with the prover-chosen blinding point `R`) relies on "every non-identity point has order
//! ORDER" to exclude the exceptional cases of `incomplete_add`. This module runs the REAL chip on
//! points of order 3 and 11:
//!
//! * honest run of `point_from_coordinates(x, y)` + `mul_by_constant(n, ·)`;
//! * forged run: hook `ecc::foreign::verif_hooks` replaces the coordinates the LAST
//!   `incomplete_add` witnesses for its result by `(1 − 2a, (a − rx) − b)` — the point the
//!   constraints accept for equal operands `(a, b)` with the slope `λ = 1` that the witness
//!   generation of `assert_add` writes when `p.x = q.x` (Lean: `incomplete_add_equal_free`).
//!
//! Both runs go to the Lean model as `bls mulc_raw` / `bls mulc_forge` lines; an honest rejection
//! and a forged acceptance are reported through `oracle_fail` (recorded finding).
use std::cell::RefCell;

use ff::Field;
use group::Group;
use midnight_circuits::{
    ecc::{curves::CircuitCurve, foreign::verif_hooks as point_hooks},
    instructions::{AssignmentInstructions, EccInstructions, ZeroInstructions},
    testing_utils::FromScratch,
    types::InnerValue,
    CircuitField,
};
use midnight_curves::{Fp, G1Projective};
use midnight_proofs::{
    circuit::{Layouter, SimpleFloorPlanner, Value},
    dev::MockProver,
    plonk::{Circuit, ConstraintSystem, Error},
};
use num_bigint::BigUint;
use serde_json::json;

use crate::circ::{BlsChip, F};
use crate::run::Out;

type Scalar = <G1Projective as CircuitCurve>::ScalarField;

/// Cofactor of BLS12-381 G1.
fn cofactor() -> BigUint {
    BigUint::parse_bytes(b"396c8c005555e1568c00aaab0000aaab", 16).unwrap()
}

fn int_mul(g: &G1Projective, n: &BigUint) -> G1Projective {
    let mut acc = G1Projective::identity();
    for i in (0..n.bits()).rev() {
        acc = acc.double();
        if n.bit(i) {
            acc += *g;
        }
    }
    acc
}

fn coords(g: &G1Projective) -> (Fp, Fp) {
    <G1Projective as CircuitCurve>::coordinates(g).unwrap()
}

/// A curve point of exact prime order `q` (`q = 3`: `(0, 2)`; otherwise found by clearing the
/// rest of the group order from points with small `x`).
fn point_of_order(q: u32) -> Option<G1Projective> {
    let qb = BigUint::from(q);
    if q == 3 {
        return <G1Projective as CircuitCurve>::from_xy(Fp::ZERO, Fp::from(2u64));
    }
    let order = cofactor() * <Scalar as CircuitField>::modulus();
    let mut rest = order.clone();
    while (&rest % &qb) == BigUint::from(0u8) {
        rest /= &qb;
    }
    for x in 1u64..200 {
        let xf = Fp::from(x);
        let rhs = xf * xf * xf + Fp::from(4u64);
        let y: Option<Fp> = rhs.sqrt().into();
        let Some(y) = y else { continue };
        let Some(p) = <G1Projective as CircuitCurve>::from_xy(xf, y) else { continue };
        let mut t = int_mul(&p, &rest);
        if bool::from(t.is_identity()) {
            continue;
        }
        // t has order q^k: go down to order q
        loop {
            let n = int_mul(&t, &qb);
            if bool::from(n.is_identity()) {
                return Some(t);
            }
            t = n;
        }
    }
    None
}

struct LowCirc {
    x: Fp,
    y: Fp,
    n: BigUint,
    out: RefCell<Option<(bool, BigUint, BigUint)>>,
}

impl Circuit<F> for LowCirc {
    type Config = <BlsChip as FromScratch<F>>::Config;
    type FloorPlanner = SimpleFloorPlanner;
    type Params = ();

    fn without_witnesses(&self) -> Self {
        unreachable!()
    }

    fn configure(meta: &mut ConstraintSystem<F>) -> Self::Config {
        let committed = meta.instance_column();
        let instance = meta.instance_column();
        BlsChip::configure_from_scratch(meta, &[committed, instance])
    }

    fn synthesize(&self, config: Self::Config, mut layouter: impl Layouter<F>) -> Result<(), Error> {
        let chip = BlsChip::new_from_scratch(&config);
        let xa = chip.base_field_chip().assign(&mut layouter, Value::known(self.x))?;
        let ya = chip.base_field_chip().assign(&mut layouter, Value::known(self.y))?;
        let p = chip.point_from_coordinates(&mut layouter, &xa, &ya)?;
        let s: Scalar = mzkh::fe_from_big::<Scalar>(&self.n);
        let r = chip.mul_by_constant(&mut layouter, s, &p)?;
        let flag = chip.is_zero(&mut layouter, &r)?;
        let mut got = None;
        chip.x_coordinate(&r).value().zip(chip.y_coordinate(&r).value()).zip(flag.value()).map(|((x, y), f)| {
            got = Some((f, x.to_biguint(), y.to_biguint()));
        });
        *self.out.borrow_mut() = got;
        chip.load_from_scratch(&mut layouter)
    }
}

struct LowRun {
    /// Ok(accepted) / Err(panic or synthesis error)
    verdict: Result<bool, String>,
    result: Option<(bool, BigUint, BigUint)>,
    failures: String,
    /// number of `assign_point_unchecked` calls
    calls: usize,
}

fn run_once(q: &G1Projective, n: &BigUint, plan: Vec<point_hooks::PointTarget>) -> LowRun {
    let (x, y) = coords(q);
    let mut k = 13;
    loop {
        let circ = LowCirc { x, y, n: n.clone(), out: RefCell::new(None) };
        point_hooks::set_point_plan(plan.clone());
        let r = mzkh::catch(|| MockProver::run(k, &circ, vec![vec![], vec![]]));
        let calls = point_hooks::take_point_plan();
        let result = circ.out.borrow().clone();
        let (verdict, failures) = match r {
            Err(p) => (Err(format!("panic: {p}")), String::new()),
            Ok(Err(e)) => {
                let s = format!("{e:?}");
                if (s.contains("NotEnoughRowsAvailable") || s.contains("not enough rows")) && k < 18 {
                    k += 1;
                    continue;
                }
                (Err(format!("error: {s}")), String::new())
            }
            Ok(Ok(prover)) => match mzkh::catch(|| prover.verify()) {
                Ok(Ok(())) => (Ok(true), String::new()),
                Ok(Err(fs)) => {
                    let mut s = format!("{} failures; first: {:?}", fs.len(), fs.first());
                    s.truncate(500);
                    (Ok(false), s)
                }
                Err(p) => (Err(format!("verify panic: {p}")), String::new()),
            },
        };
        return LowRun { verdict, result, failures, calls };
    }
}

fn answer(r: &LowRun) -> String {
    match (&r.verdict, &r.result) {
        (Ok(true), Some((f, x, y))) => format!("ok {} {} {}", *f as u8, mzkh::big_hex(x), mzkh::big_hex(y)),
        (Ok(true), None) => "ok ?".into(),
        _ => "unsat".into(),
    }
}

fn on_curve(x: &BigUint, y: &BigUint) -> bool {
    let xf: Fp = mzkh::fe_from_big::<Fp>(x);
    let yf: Fp = mzkh::fe_from_big::<Fp>(y);
    yf * yf == xf * xf * xf + Fp::from(4u64)
}

/// The double-and-add of `mul_by_u128(n, Q)` on discrete logs modulo the order of `Q`: `Some(k)` iff
/// the LAST `incomplete_add` has the equal operands `k·Q` and no earlier one is exceptional
/// (`p.x = q.x`, i.e. `a ≡ ±t`) or meets the identity.
fn last_add_equal_operands(order: u32, n: u64) -> Option<u64> {
    let o = order as u64;
    let (mut n, mut tmp, mut res): (u64, u64, Option<u64>) = (n, 1 % o, None);
    let mut last: Option<(u64, u64)> = None;
    while n > 0 {
        if n & 1 == 1 {
            res = match res {
                None => Some(tmp),
                Some(a) => {
                    if let Some((pa, pt)) = last {
                        // an earlier addition must be an ordinary chord addition
                        if pa == pt || (pa + pt) % o == 0 || pa == 0 || pt == 0 {
                            return None;
                        }
                    }
                    last = Some((a, tmp));
                    Some((a + tmp) % o)
                }
            };
        }
        tmp = (tmp * 2) % o;
        n >>= 1;
    }
    match last {
        Some((a, t)) if a == t && a != 0 => Some(a),
        _ => None,
    }
}

/// One `(order, n, k)` case: `Q` of the given order, `mul_by_constant(n, Q)`; `k` (if any) says
/// that the LAST `incomplete_add` of the run has the equal operands `k·Q` (then the forged run
/// is made as well).
pub fn case(order: u32, n: u64, forge_k: Option<u64>) -> Out {
    let mut ctx = Out::default();
    let Some(q) = point_of_order(order) else {
        ctx.oracle_fail("harness:loworder:no-point", "no point of the requested order found", json!({"order": order}));
        return ctx;
    };
    let (qx, qy) = coords(&q);
    let nb = BigUint::from(n);
    let expected = int_mul(&q, &nb);
    let line_tail = format!("{} {} {}", mzkh::big_hex(&nb), mzkh::big_hex(&qx.to_biguint()), mzkh::big_hex(&qy.to_biguint()));
    ctx.count(&format!("class:bls:loworder:ord{order}x{n}"));
    // honest run
    let honest = run_once(&q, &nb, vec![]);
    ctx.case("bls:loworder:mulc_raw", true, &format!("bls mulc_raw {line_tail}"), &answer(&honest));
    let detail = |r: &LowRun| {
        json!({"point_order": order, "n": n, "x": mzkh::big_hex(&qx.to_biguint()), "y": mzkh::big_hex(&qy.to_biguint()),
               "verdict": format!("{:?}", r.verdict), "failures": r.failures, "result": format!("{:?}", r.result),
               "expected_is_identity": bool::from(expected.is_identity())})
    };
    match &honest.verdict {
        Ok(true) => {
            // accepted: the result must be the group operation
            let ok = match &honest.result {
                Some((f, x, y)) => {
                    if bool::from(expected.is_identity()) {
                        *f
                    } else {
                        let (ex, ey) = coords(&expected);
                        !*f && *x == ex.to_biguint() && *y == ey.to_biguint()
                    }
                }
                None => false,
            };
            if !ok {
                ctx.oracle_fail(
                    &format!("wrong-result:bls:loworder:ord{order}x{n}"),
                    "mul_by_constant on a curve point outside the subgroup is accepted with a result different from the group operation (honest witness)",
                    detail(&honest),
                );
            }
        }
        _ => {
            ctx.oracle_fail(
                "foreign:bls:mul_by_u128:small-order-base",
                "BLS12-381 foreign chip: mul_by_constant(n, Q) rejects the honest witness for a curve point Q of small order (assign / point_from_coordinates admit it; mul_by_u128 assumes order > 2^129)",
                detail(&honest),
            );
        }
    }
    // forged run — only on the class the forging prover (and the Lean model `incAddForge`) is
    // defined on: the last `incomplete_add` has equal operands `k·Q`. A case table entry whose `k`
    // is not that operand (e.g. n = 37 on order 11: the last addition is 5Q + 10Q, an ordinary
    // chord addition) is not forged: replacing an honest chord sum is simply rejected.
    let forge_k = match (forge_k, last_add_equal_operands(order, n)) {
        (Some(k), Some(k2)) if k % order as u64 == k2 => Some(k),
        (Some(_), _) => {
            ctx.count("loworder:forge-skipped:last-add-not-equal-operands");
            None
        }
        _ => None,
    };
    if let Some(k) = forge_k {
        let kq = int_mul(&q, &BigUint::from(k));
        let (a, b) = coords(&kq);
        let rx = Fp::ONE - a - a;
        let ry = (a - rx) - b;
        if honest.calls == 0 {
            ctx.oracle_fail("harness:loworder:no-calls", "the point hook counted no call", json!({}));
            return ctx;
        }
        let plan = vec![(honest.calls - 1, rx.to_biguint(), ry.to_biguint(), false)];
        let forged = run_once(&q, &nb, plan);
        ctx.case("bls:loworder:mulc_forge", true, &format!("bls mulc_forge {line_tail}"), &answer(&forged));
        if forged.verdict == Ok(true) {
            let (same, oncurve) = match &forged.result {
                Some((f, x, y)) => {
                    let same = if bool::from(expected.is_identity()) {
                        *f
                    } else {
                        let (ex, ey) = coords(&expected);
                        !*f && *x == ex.to_biguint() && *y == ey.to_biguint()
                    };
                    (same, on_curve(x, y))
                }
                None => (false, false),
            };
            if !same {
                let mut d = detail(&forged);
                d["result_on_curve"] = json!(oncurve);
                d["forged_cell"] = json!("coordinates witnessed by the last incomplete_add (assign_point_unchecked), lambda = 1 as written by assert_add");
                ctx.oracle_fail(
                    "foreign:bls:mul_by_u128:small-order-base:forged-accepted",
                    "BLS12-381 foreign chip: for a curve point Q of small order the circuit of mul_by_constant(n, Q) ACCEPTS a prover-chosen result that is not n*Q (not even on the curve): incomplete_add with equal operands leaves the slope free",
                    d,
                );
            }
        }
    }
    ctx
}
