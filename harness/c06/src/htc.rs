//! Map-to-curve / hash-to-curve on Jubjub: the CPU reference (`mtc_cpu.rs`), the in-circuit gadget
//! (`mtc.rs` through the REAL `EccChip::map_to_curve` and `MockProver`) and the Lean model must
//! agree on EVERY input — in particular on the exceptional inputs of the Shallue–van de Woestijne
//! map (`tv1·tv2 = 0`, where step 6 inverts zero), which exist for Jubjub and are computed here
//! from the constants of the running code (`C::c1()`), never hard-coded.
//!
//! Lines:
//! * `jub htc_consts` — `Z A B J K c1 c2 c3 c4` of the running code (`MapToWeierstrassParams`);
//! * `jub htc_exceptional` — the inputs with `c1·u² = ±1`, and those with `g(x1(u)) = 0`,
//!   `g(x2(u)) = 0` (none for Jubjub), each set computed independently by harness and model;
//! * `jub map_to_curve U` — hook `verif_map_to_jubjub_steps`: the Weierstrass, Montgomery and
//!   Edwards stages, and the final subgroup point of `MapToCurveCPU::map_to_curve` (under `catch`);
//! * `jub mtc_circuit U` — the point the circuit returns and the content of the nine ECC columns
//!   (membership row of the Edwards point, rows of `mul_by_constant(8, ·)`);
//! * `jub htc_glue X1 X2` — `HashToCurveCPU::hash_to_curve` given the two squeezed field elements.
//!
//! Oracles (`oracle_fail`): the CPU reference panics; the stages leave their curves; the result is
//! not in the prime-order subgroup; the circuit rejects the honest witness; circuit and reference
//! disagree; a tampered advice cell of the gadget is accepted with inputs and result bound as
//! public inputs; in-circuit `hash_to_curve` differs from the CPU one.
use std::cell::RefCell;

use ff::{Field, PrimeField};
use group::Group;
use midnight_circuits::{
    ecc::{
        curves::CircuitCurve,
        hash_to_curve::{verif_map_to_jubjub_steps, HashToCurveGadget, MapToCurveCPU, MapToCurveInstructions, MapToEdwardsParams},
    },
    hash::poseidon::PoseidonChip,
    instructions::{
        AssignmentInstructions, EccInstructions, HashToCurveCPU, HashToCurveInstructions, PublicInputInstructions, SpongeCPU,
    },
    testing_utils::FromScratch,
    types::{AssignedNative, Instantiable},
    CircuitField,
};
use midnight_curves::{JubjubExtended, JubjubSubgroup};
use midnight_proofs::{
    circuit::{verif_hooks, Layouter, SimpleFloorPlanner, Value},
    dev::MockProver,
    plonk::{Circuit, ConstraintSystem, Error},
};
use serde_json::json;

use crate::circ::{JubChip, F};
use crate::run::Out;

type Point = <JubChip as EccInstructions<F, JubjubExtended>>::Point;
type Htc = HashToCurveGadget<F, JubjubExtended, AssignedNative<F>, PoseidonChip<F>, JubChip>;

fn hx(v: &F) -> String {
    mzkh::fe_hex(v)
}

fn val<T: Clone>(v: Value<T>) -> Option<T> {
    let mut out = None;
    v.map(|x| out = Some(x));
    out
}

/// `Z A B J K c1 c2 c3 c4` of the running code (the supertrait `MapToWeierstrassParams` is not
/// exported by name; its items are reachable through the bound).
fn consts<C: MapToEdwardsParams<F>>() -> [F; 9] {
    [C::SVDW_Z, C::A, C::B, C::MONT_J, C::MONT_K, C::c1(), C::c2(), C::c3(), C::c4()]
}

fn sqrt(x: F) -> Option<F> {
    x.sqrt().into()
}

/// Both square roots, sorted by canonical value, without duplicates.
fn roots(x: F) -> Vec<F> {
    match sqrt(x) {
        None => vec![],
        Some(r) => {
            let mut v = vec![r, -r];
            v.sort_by_key(|a| a.to_biguint());
            v.dedup();
            v
        }
    }
}

fn g(c: &[F; 9], x: F) -> F {
    x * x * x + c[1] * x + c[2]
}

/// The inputs with `c1 u² = 1` and with `c1 u² = −1`.
pub fn exceptional() -> Vec<F> {
    let c = consts::<JubjubExtended>();
    let i: F = Option::<F>::from(c[5].invert()).unwrap_or(F::ZERO);
    let mut v = roots(i);
    v.extend(roots(-i));
    v
}

/// Inputs with `x1(u) = ρ` / `x2(u) = ρ` for the root `ρ = J/(3K)` of `g`.
fn zero_gx() -> (Vec<F>, Vec<F>) {
    let c = consts::<JubjubExtended>();
    let inv = |x: F| -> F { Option::<F>::from(x.invert()).unwrap_or(F::ZERO) };
    let rho = c[3] * inv(F::from(3u64)) * inv(c[4]);
    let d = c[6] - rho;
    let quad = |al: F, be: F, ga: F| -> Vec<F> {
        let disc = be * be - F::from(4u64) * al * ga;
        let i = inv(F::from(2u64) * al);
        roots(disc).into_iter().map(|s| (s - be) * i).collect()
    };
    (quad(d * c[5], -c[7], d), quad(d * c[5], c[7], d))
}

pub fn consts_case() -> Out {
    let mut ctx = Out::default();
    let c = consts::<JubjubExtended>();
    ctx.case("jub:htc_consts", true, "jub htc_consts", &c.iter().map(hx).collect::<Vec<_>>().join(" "));
    let (z1, z2) = zero_gx();
    let fmt = |v: &[F]| if v.is_empty() { "-".to_string() } else { v.iter().map(hx).collect::<Vec<_>>().join(",") };
    let exc = exceptional();
    ctx.case("jub:htc_exceptional", true, "jub htc_exceptional", &format!("{} | {} | {}", fmt(&exc), fmt(&z1), fmt(&z2)));
    // independent oracle on the parameters (what `test_params` of the repository asserts, plus the
    // defining equations): c3 even root, c4·(3Z²+4A) = −4 c1, g(ρ) = 0
    let den = F::from(3u64) * c[0] * c[0] + F::from(4u64) * c[1];
    let ok = c[5] == g(&c, c[0])
        && c[6] + c[6] == -c[0]
        && c[7] * c[7] == -c[5] * den
        && !bool::from(c[7].is_odd())
        && c[8] * den == -F::from(4u64) * c[5]
        && c[5] != F::ZERO
        && den != F::ZERO;
    if !ok {
        ctx.oracle_fail("htc:params", "the SvdW constants of the running code violate their defining equations", json!({"consts": c.iter().map(hx).collect::<Vec<_>>()}));
    }
    for u in exc.iter() {
        let w = c[5] * u * u;
        if w != F::ONE && w != -F::ONE {
            ctx.oracle_fail("htc:exceptional-not-exceptional", "harness bug: computed exceptional input is not exceptional", json!({"u": hx(u)}));
        }
    }
    ctx.count(&format!("htc:exceptional-inputs:{}", exc.len()));
    ctx.count(&format!("htc:zero-gx-inputs:{}", z1.len() + z2.len()));
    ctx
}

fn coords(p: &JubjubSubgroup) -> (F, F) {
    let e: JubjubExtended = (*p).into();
    <JubjubExtended as CircuitCurve>::coordinates(&e).unwrap()
}

fn on_edwards(x: F, y: F) -> bool {
    <JubjubExtended as CircuitCurve>::from_xy(x, y).is_some()
}

/// The CPU reference on `u`: stages and result (`None`: it panicked).
pub fn cpu(u: &F) -> Result<([(F, F); 3], (F, F)), String> {
    let u = *u;
    mzkh::catch(move || {
        let st = verif_map_to_jubjub_steps(&u);
        let out = <JubjubExtended as MapToCurveCPU<JubjubExtended>>::map_to_curve(&u);
        (st, coords(&out))
    })
}

pub fn cpu_case(class: &str, u: F) -> Out {
    let mut ctx = Out::default();
    ctx.count(&format!("class:jub:map_to_curve:{class}"));
    let line = format!("jub map_to_curve {}", hx(&u));
    match cpu(&u) {
        Err(p) => {
            ctx.case("jub:map_to_curve", true, &line, "panic");
            ctx.oracle_fail(
                &format!("htc:cpu-panics:{}", hx(&u)),
                "MapToCurveCPU::map_to_curve (the reference that defines hash_to_curve) panics on a field element",
                json!({"u": hx(&u), "class": class, "panic": p}),
            );
        }
        Ok((st, out)) => {
            let f = |p: &(F, F)| format!("{}:{}", hx(&p.0), hx(&p.1));
            ctx.case(
                "jub:map_to_curve",
                true,
                &line,
                &format!("ok w={} m={} e={} out={}", f(&st[0]), f(&st[1]), f(&st[2]), f(&out)),
            );
            // compressed encoding of the result (`repr_J`): off-circuit bytes vs the model
            if let Some(e) = <JubjubExtended as CircuitCurve>::from_xy(out.0, out.1) {
                let sub: JubjubSubgroup = <JubjubExtended as CircuitCurve>::into_subgroup(e);
                let bytes = group::GroupEncoding::to_bytes(&sub);
                let n = num_bigint::BigUint::from_bytes_le(bytes.as_ref());
                ctx.case("jub:repr_j", true, &format!("jub repr_j {} {}", hx(&out.0), hx(&out.1)), &mzkh::big_hex(&n));
            }
            let c = consts::<JubjubExtended>();
            let (wx, wy) = st[0];
            let (mx, my) = st[1];
            let (ex, ey) = st[2];
            let mut bad = vec![];
            if wy * wy != g(&c, wx) {
                bad.push("SvdW output not on the Weierstrass model");
            }
            if c[4] * my * my != mx * mx * mx + c[3] * mx * mx + mx {
                bad.push("Montgomery stage not on K y^2 = x^3 + J x^2 + x");
            }
            if !on_edwards(ex, ey) {
                bad.push("Edwards stage not on Jubjub");
            }
            if bool::from(wy.is_odd()) != bool::from(u.is_odd()) && wy != F::ZERO {
                bad.push("sgn0(y) != sgn0(u)");
            }
            // prime-order subgroup: r·out = identity
            let e = <JubjubExtended as CircuitCurve>::from_xy(out.0, out.1);
            match e {
                None => bad.push("result not on Jubjub"),
                Some(e) => {
                    if !bool::from(e.is_torsion_free()) {
                        bad.push("result outside the prime-order subgroup");
                    }
                }
            }
            for b in bad {
                ctx.oracle_fail(&format!("htc:cpu-stage:{}:{}", b.replace(' ', "-"), hx(&u)), b, json!({"u": hx(&u), "class": class}));
            }
        }
    }
    ctx
}

/// Number of independent copy constraints of the circuit: Σ over the cycles of the permutation
/// (len − 1). `assert_equal` on native cells is a bare copy constraint — no selector, no advice
/// cell — so this is the only place where dropping one shows.
fn copies(mp: &MockProver<F>) -> usize {
    use rayon::iter::ParallelIterator;
    let map: Vec<Vec<(usize, usize)>> = mp.permutation().mapping().map(|c| c.collect()).collect();
    let mut seen: Vec<Vec<bool>> = map.iter().map(|c| vec![false; c.len()]).collect();
    let mut total = 0usize;
    for i in 0..map.len() {
        for j in 0..map[i].len() {
            if seen[i][j] {
                continue;
            }
            let (mut a, mut b) = (i, j);
            let mut len = 0usize;
            while !seen[a][b] {
                seen[a][b] = true;
                len += 1;
                let n = map[a][b];
                a = n.0;
                b = n.1;
            }
            total += len - 1;
        }
    }
    total
}

/// `u ↦ map_to_curve(u)` through the real chip.
struct MtcCirc {
    u: F,
    bind: bool,
    out: RefCell<Option<(F, F)>>,
    range: RefCell<(usize, usize)>,
}

impl Circuit<F> for MtcCirc {
    type Config = <JubChip as FromScratch<F>>::Config;
    type FloorPlanner = SimpleFloorPlanner;
    type Params = ();

    fn without_witnesses(&self) -> Self {
        unreachable!()
    }

    fn configure(meta: &mut ConstraintSystem<F>) -> Self::Config {
        let committed = meta.instance_column();
        let instance = meta.instance_column();
        JubChip::configure_from_scratch(meta, &[committed, instance])
    }

    fn synthesize(&self, config: Self::Config, mut layouter: impl Layouter<F>) -> Result<(), Error> {
        let chip = JubChip::new_from_scratch(&config);
        let ng = chip.native_gadget();
        let ua: AssignedNative<F> = ng.assign(&mut layouter, Value::known(self.u))?;
        let start = verif_hooks::counter::<F>();
        let p: Point = chip.map_to_curve(&mut layouter, &ua)?;
        let end = verif_hooks::counter::<F>();
        *self.range.borrow_mut() = (start, end);
        let xc = chip.x_coordinate(&p);
        let yc = chip.y_coordinate(&p);
        if let (Some(x), Some(y)) = (val(xc.value()), val(yc.value())) {
            *self.out.borrow_mut() = Some((*x, *y));
        }
        if self.bind {
            ng.constrain_as_public_input(&mut layouter, &ua)?;
            chip.constrain_as_public_input(&mut layouter, &p)?;
        }
        chip.load_from_scratch(&mut layouter)
    }
}

struct MtcRun {
    verdict: Result<bool, String>,
    out: Option<(F, F)>,
    range: (usize, usize),
    prover: Option<MockProver<F>>,
    failures: String,
}

const K: u32 = 11;

fn run_mtc(u: F, bind: Option<Vec<F>>, faults: Vec<(usize, verif_hooks::Fault<F>)>) -> MtcRun {
    let circ = MtcCirc { u, bind: bind.is_some(), out: RefCell::new(None), range: RefCell::new((0, 0)) };
    let inst = bind.unwrap_or_default();
    verif_hooks::set_plan::<F>(verif_hooks::TamperPlan::new(faults));
    let r = mzkh::catch(|| MockProver::run(K, &circ, vec![vec![], inst]));
    let _ = verif_hooks::take_plan::<F>();
    let out = *circ.out.borrow();
    let range = *circ.range.borrow();
    match r {
        Err(p) => MtcRun { verdict: Err(format!("panic: {p}")), out, range, prover: None, failures: String::new() },
        Ok(Err(e)) => MtcRun { verdict: Err(format!("error: {e:?}")), out, range, prover: None, failures: String::new() },
        Ok(Ok(prover)) => match mzkh::catch(|| prover.verify()) {
            Ok(Ok(())) => MtcRun { verdict: Ok(true), out, range, prover: Some(prover), failures: String::new() },
            Ok(Err(fs)) => {
                let mut s = format!("{} failures; first: {:?}", fs.len(), fs.first());
                s.truncate(500);
                MtcRun { verdict: Ok(false), out, range, prover: Some(prover), failures: s }
            }
            Err(p) => MtcRun { verdict: Err(format!("verify panic: {p}")), out, range, prover: None, failures: String::new() },
        },
    }
}

/// The gadget on `u`: correspondence line, agreement with the reference, and `tamper` sampled
/// single-cell faults over the advice cells the gadget writes (inputs and result bound).
pub fn circuit_case(class: &str, u: F, tamper: usize, mut rng: rand_chacha::ChaCha8Rng) -> Out {
    use rand_core::RngCore;
    let mut ctx = Out::default();
    ctx.count(&format!("class:jub:mtc_circuit:{class}"));
    let line = format!("jub mtc_circuit {}", hx(&u));
    let r = run_mtc(u, None, vec![]);
    let reference = cpu(&u);
    let detail = |r: &MtcRun| json!({"u": hx(&u), "class": class, "verdict": format!("{:?}", r.verdict), "failures": r.failures,
        "circuit": r.out.map(|p| format!("{} {}", hx(&p.0), hx(&p.1))), "reference": format!("{:?}", reference.as_ref().map(|x| format!("{} {}", hx(&x.1 .0), hx(&x.1 .1))))});
    match (&r.verdict, r.out) {
        (Ok(true), Some(p)) => {
            let table = r.prover.as_ref().map(|mp| crate::run::layout().table(mp)).unwrap_or_default();
            ctx.case("jub:mtc_circuit", true, &line, &format!("ok {} {} | {}", hx(&p.0), hx(&p.1), table));
            // structure of the whole gadget (selector activations, assigned advice cells): a dropped
            // or added constraint-emitting call changes it even when honest witnesses still verify
            if let Some(mp) = r.prover.as_ref() {
                ctx.case(
                    "jub:fingerprint:map_to_curve",
                    false,
                    "jub fingerprint map_to_curve w",
                    &format!("{} copies={}", crate::run::ForeignLayout::fingerprint(mp), copies(mp)),
                );
            }
            match &reference {
                Ok((_, out)) if *out == p => ctx.count("htc:circuit=reference"),
                Ok(_) => ctx.oracle_fail(
                    &format!("htc:circuit-vs-reference:{}", hx(&u)),
                    "in-circuit map_to_curve and the CPU reference return different points",
                    detail(&r),
                ),
                Err(_) => ctx.oracle_fail(
                    &format!("htc:reference-panics-circuit-accepts:{}", hx(&u)),
                    "the circuit proves a map_to_curve output for an input on which the CPU reference panics (off-circuit reference and circuit disagree)",
                    detail(&r),
                ),
            }
        }
        _ => {
            ctx.case("jub:mtc_circuit", true, &line, "unsat");
            ctx.oracle_fail(
                &format!("htc:honest-rejected:{}", hx(&u)),
                "in-circuit map_to_curve rejects the honest witness (or its synthesis panics)",
                detail(&r),
            );
            return ctx;
        }
    }
    if tamper == 0 {
        return ctx;
    }
    let Ok((_, out)) = reference else { return ctx };
    let sub: JubjubSubgroup = match <JubjubExtended as CircuitCurve>::from_xy(out.0, out.1) {
        Some(e) => <JubjubExtended as CircuitCurve>::into_subgroup(e),
        None => return ctx,
    };
    let mut inst = vec![u];
    inst.extend(<Point as Instantiable<F>>::as_public_input(&sub));
    let r0 = run_mtc(u, Some(inst.clone()), vec![]);
    if r0.verdict != Ok(true) {
        ctx.oracle_fail(
            &format!("htc:honest-rejected-pi:{}", hx(&u)),
            "map_to_curve with input and result bound as public inputs rejects the honest witness",
            detail(&r0),
        );
        return ctx;
    }
    let (lo, hi) = r0.range;
    ctx.count(&format!("htc:gadget-advice-cells:{}", hi - lo));
    let n = hi - lo;
    let mut targets: Vec<usize> = vec![lo, hi - 1];
    while targets.len() < tamper.min(n) {
        let c = lo + (rng.next_u64() as usize) % n;
        if !targets.contains(&c) {
            targets.push(c);
        }
    }
    for idx in targets {
        for kind in 0..2 {
            let seen = std::rc::Rc::new(RefCell::new(F::ZERO));
            let s2 = seen.clone();
            let f: verif_hooks::Fault<F> = if kind == 0 {
                Box::new(move |v| { *s2.borrow_mut() = v; v + F::ONE })
            } else {
                Box::new(move |v| { *s2.borrow_mut() = v; F::ONE - v })
            };
            let r = run_mtc(u, Some(inst.clone()), vec![(idx, f)]);
            ctx.count("htc:tamper:tried");
            match r.verdict {
                // accepted with the honest public inputs: the bound input and result are unchanged
                // (cells with a zero coefficient in their gate, the free auxiliary of `is_zero(0)`)
                Ok(true) => ctx.count("htc:tamper:accepted-result-unchanged"),
                _ => ctx.count("htc:tamper:rejected"),
            }
            // the same fault with the public inputs following the tampered value
            let before = *seen.borrow();
            let after = if kind == 0 { before + F::ONE } else { F::ONE - before };
            let mut inst2 = inst.clone();
            let mut changed = false;
            for v in inst2.iter_mut().skip(1) {
                if *v == before && before != after {
                    *v = after;
                    changed = true;
                }
            }
            if changed {
                let r2 = run_mtc(u, Some(inst2), vec![(idx, Box::new(move |_| after))]);
                ctx.count("htc:tamper:tried-with-adjusted-instance");
                if r2.verdict == Ok(true) {
                    ctx.oracle_fail(
                        &format!("htc:tampered-result-accepted:{}:{}", idx - lo, kind),
                        "a tampered result cell of map_to_curve is accepted when the public inputs follow it",
                        json!({"u": hx(&u), "class": class, "cell": idx - lo, "fault": kind}),
                    );
                }
            }
        }
    }
    ctx
}

/// Development aid: every advice cell of the gadget whose single-cell fault is accepted, with its
/// honest value.
pub fn probe_free_cells(u: F) {
    let c = cpu(&u).unwrap();
    let sub: JubjubSubgroup = <JubjubExtended as CircuitCurve>::into_subgroup(<JubjubExtended as CircuitCurve>::from_xy(c.1 .0, c.1 .1).unwrap());
    let mut inst = vec![u];
    inst.extend(<Point as Instantiable<F>>::as_public_input(&sub));
    let r0 = run_mtc(u, Some(inst.clone()), vec![]);
    let (lo, hi) = r0.range;
    println!("u={} cells {}..{} honest={:?}", hx(&u), lo, hi, r0.verdict);
    for idx in lo..hi {
        let seen = std::rc::Rc::new(RefCell::new(F::ZERO));
        let s2 = seen.clone();
        let f: verif_hooks::Fault<F> = Box::new(move |v| { *s2.borrow_mut() = v; v + F::ONE });
        let r = run_mtc(u, Some(inst.clone()), vec![(idx, f)]);
        if r.verdict == Ok(true) {
            println!("  FREE cell {} value {}", idx - lo, hx(&seen.borrow()));
        }
    }
}

/// In-circuit `hash_to_curve` on one input.
struct HtcCirc {
    inputs: Vec<F>,
    out: RefCell<Option<(F, F)>>,
}

impl Circuit<F> for HtcCirc {
    type Config = <Htc as FromScratch<F>>::Config;
    type FloorPlanner = SimpleFloorPlanner;
    type Params = ();

    fn without_witnesses(&self) -> Self {
        unreachable!()
    }

    fn configure(meta: &mut ConstraintSystem<F>) -> Self::Config {
        let committed = meta.instance_column();
        let instance = meta.instance_column();
        Htc::configure_from_scratch(meta, &[committed, instance])
    }

    fn synthesize(&self, config: Self::Config, mut layouter: impl Layouter<F>) -> Result<(), Error> {
        let htc = Htc::new_from_scratch(&config);
        let chip = htc.ecc_chip().clone();
        let ng = chip.native_gadget();
        let ins: Vec<AssignedNative<F>> =
            self.inputs.iter().map(|v| ng.assign(&mut layouter, Value::known(*v))).collect::<Result<_, _>>()?;
        let p: Point = htc.hash_to_curve(&mut layouter, &ins)?;
        let xc = chip.x_coordinate(&p);
        let yc = chip.y_coordinate(&p);
        if let (Some(x), Some(y)) = (val(xc.value()), val(yc.value())) {
            *self.out.borrow_mut() = Some((*x, *y));
        }
        htc.load_from_scratch(&mut layouter)
    }
}

/// `hash_to_curve(inputs)`: the two squeezed elements (CPU sponge), the CPU result (line for the
/// model), and — when `circuit` — the in-circuit result.
pub fn glue_case(class: &str, inputs: Vec<F>, circuit: bool) -> Out {
    let mut ctx = Out::default();
    ctx.count(&format!("class:jub:htc_glue:{class}"));
    let ins = inputs.clone();
    let r = mzkh::catch(move || {
        let mut st = <PoseidonChip<F> as SpongeCPU<F, F>>::init(None);
        <PoseidonChip<F> as SpongeCPU<F, F>>::absorb(&mut st, &ins);
        let x1 = <PoseidonChip<F> as SpongeCPU<F, F>>::squeeze(&mut st);
        let x2 = <PoseidonChip<F> as SpongeCPU<F, F>>::squeeze(&mut st);
        let out = <Htc as HashToCurveCPU<JubjubExtended, F>>::hash_to_curve(&ins);
        (x1, x2, coords(&out))
    });
    let key = inputs.iter().map(hx).collect::<Vec<_>>().join(",");
    let (x1, x2, out) = match r {
        Ok(v) => v,
        Err(p) => {
            ctx.oracle_fail(&format!("htc:hash-cpu-panics:{key}"), "HashToCurveCPU::hash_to_curve panics", json!({"inputs": key, "panic": p}));
            return ctx;
        }
    };
    ctx.case("jub:htc_glue", true, &format!("jub htc_glue {} {}", hx(&x1), hx(&x2)), &format!("ok {} {}", hx(&out.0), hx(&out.1)));
    if circuit {
        let circ = HtcCirc { inputs: inputs.clone(), out: RefCell::new(None) };
        let r = mzkh::catch(|| MockProver::run(12, &circ, vec![vec![], vec![]]));
        let verdict = match r {
            Ok(Ok(mp)) => matches!(mzkh::catch(|| mp.verify()), Ok(Ok(()))),
            _ => false,
        };
        let got = *circ.out.borrow();
        ctx.count("htc:hash-circuit:tried");
        if !verdict || got != Some(out) {
            ctx.oracle_fail(
                &format!("htc:hash-circuit-vs-cpu:{key}"),
                "in-circuit hash_to_curve is rejected or differs from HashToCurveCPU::hash_to_curve",
                json!({"inputs": key, "accepted": verdict, "circuit": got.map(|p| format!("{} {}", hx(&p.0), hx(&p.1))), "cpu": format!("{} {}", hx(&out.0), hx(&out.1))}),
            );
        }
    }
    ctx
}

/// Boundary classes of `u` (the exceptional ones computed from the running constants).
pub fn input_classes() -> Vec<(String, F)> {
    let mut v: Vec<(String, F)> = vec![];
    for (i, u) in exceptional().into_iter().enumerate() {
        v.push((format!("exceptional{i}"), u));
    }
    let (z1, z2) = zero_gx();
    for (i, u) in z1.into_iter().chain(z2).enumerate() {
        v.push((format!("zero-gx{i}"), u));
    }
    v.push(("0".into(), F::ZERO));
    v.push(("1".into(), F::ONE));
    v.push(("-1".into(), -F::ONE));
    v.push(("2".into(), F::from(2u64)));
    v.push(("(p-1)/2".into(), F::TWO_INV - F::ONE));
    v.push(("(p+1)/2".into(), F::TWO_INV));
    let _ = JubjubSubgroup::identity();
    v
}
