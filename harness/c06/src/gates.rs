//! Dump of the real gate polynomials of the ECC chips (`EccChip::<Jubjub>::configure`,
//! `ForeignEccChip::configure` for secp256k1 and BLS12-381) as expression ASTs.
use std::collections::BTreeSet;

use ff::PrimeField;
use midnight_circuits::{
    ecc::curves::{EdwardsCurve, WeierstrassCurve},
    field::foreign::params::FieldEmulationParams,
    testing_utils::FromScratch,
    CircuitField,
};
use midnight_curves::{k256::K256, G1Projective, JubjubExtended};
use midnight_proofs::plonk::{ConstraintSystem, Expression};
use mzkh::fe_hex;
use serde_json::{json, Value};

use crate::circ::{BlsChip, JubChip, SecpChip, F};

pub fn expr_json(e: &Expression<F>) -> Value {
    match e {
        Expression::Constant(c) => json!({"t": "const", "v": fe_hex(c)}),
        Expression::Selector(s) => json!({"t": "sel", "i": s.index()}),
        Expression::Fixed(q) => json!({"t": "fixed", "c": q.column_index(), "r": q.rotation().0}),
        Expression::Advice(q) => json!({"t": "adv", "c": q.column_index(), "r": q.rotation().0}),
        Expression::Instance(q) => json!({"t": "inst", "c": q.column_index(), "r": q.rotation().0}),
        Expression::Challenge(c) => json!({"t": "chal", "i": c.index()}),
        Expression::Negated(a) => json!({"t": "neg", "a": expr_json(a)}),
        Expression::Sum(a, b) => json!({"t": "sum", "a": expr_json(a), "b": expr_json(b)}),
        Expression::Product(a, b) => json!({"t": "prod", "a": expr_json(a), "b": expr_json(b)}),
        Expression::Scaled(a, c) => json!({"t": "scaled", "a": expr_json(a), "v": fe_hex(c)}),
    }
}

/// Canonical integer value of a field element (endianness-independent).
fn cf_hex<K: CircuitField>(k: &K) -> String {
    format!("0x{}", k.to_biguint().to_str_radix(16))
}

fn advice_cols(e: &Expression<F>, out: &mut BTreeSet<usize>) {
    match e {
        Expression::Advice(q) => {
            out.insert(q.column_index());
        }
        Expression::Negated(a) | Expression::Scaled(a, _) => advice_cols(a, out),
        Expression::Sum(a, b) | Expression::Product(a, b) => {
            advice_cols(a, out);
            advice_cols(b, out);
        }
        _ => {}
    }
}

fn gates_json(cs: &ConstraintSystem<F>, names: &[&str]) -> (Vec<Value>, Vec<usize>) {
    let mut cols = BTreeSet::new();
    let gates = cs
        .gates()
        .iter()
        .filter(|g| names.contains(&g.name()))
        .map(|g| {
            g.polynomials().iter().for_each(|p| advice_cols(p, &mut cols));
            json!({
                "name": g.name(),
                "polys": g.polynomials().iter().map(expr_json).collect::<Vec<_>>(),
            })
        })
        .collect();
    (gates, cols.into_iter().collect())
}

fn selectors(e: &Expression<F>, out: &mut BTreeSet<usize>) {
    match e {
        Expression::Selector(s) => {
            out.insert(s.index());
        }
        Expression::Negated(a) | Expression::Scaled(a, _) => selectors(a, out),
        Expression::Sum(a, b) | Expression::Product(a, b) => {
            selectors(a, out);
            selectors(b, out);
        }
        _ => {}
    }
}

/// Advice columns and selector indices used by the named gates (sorted).
pub fn ecc_cols_and_selectors(cs: &ConstraintSystem<F>, names: &[&str]) -> (Vec<usize>, Vec<usize>) {
    let mut cols = BTreeSet::new();
    let mut sels = BTreeSet::new();
    for g in cs.gates().iter().filter(|g| names.contains(&g.name())) {
        for p in g.polynomials() {
            advice_cols(p, &mut cols);
            selectors(p, &mut sels);
        }
    }
    (cols.into_iter().collect(), sels.into_iter().collect())
}

fn adv_queries(e: &Expression<F>, out: &mut BTreeSet<(usize, i32)>) {
    match e {
        Expression::Advice(q) => {
            out.insert((q.column_index(), q.rotation().0));
        }
        Expression::Negated(a) | Expression::Scaled(a, _) => adv_queries(a, out),
        Expression::Sum(a, b) | Expression::Product(a, b) => {
            adv_queries(a, out);
            adv_queries(b, out);
        }
        _ => {}
    }
}

/// The condition column of the foreign EC gates: the advice column with the highest index
/// among those the named (tangent) gate queries at rotation +1 (layout `| λ limbs | u v… cond |`).
pub fn cond_col(cs: &ConstraintSystem<F>, gate: &str) -> usize {
    let mut q = BTreeSet::new();
    for g in cs.gates().iter().filter(|g| g.name() == gate) {
        for p in g.polynomials() {
            adv_queries(p, &mut q);
        }
    }
    q.iter().filter(|(_, r)| *r == 1).map(|(c, _)| *c).max().expect("tangent gate queries the next row")
}

pub const JUB_GATES: [&str; 3] = ["double", "conditional add", "witness point"];
pub const FOREIGN_GATES: [&str; 4] = [
    "Foreign-field EC assert_is_on_curve",
    "Foreign-field EC lambda slope",
    "Foreign-field EC tangent",
    "Foreign-field EC lambda squared",
];

pub fn jub_cs() -> ConstraintSystem<F> {
    let mut cs = ConstraintSystem::<F>::default();
    let a = cs.instance_column();
    let b = cs.instance_column();
    let _ = <JubChip as FromScratch<F>>::configure_from_scratch(&mut cs, &[a, b]);
    cs
}

fn foreign_json<C: WeierstrassCurve, E: FromScratch<F>>(name: &str) -> Value
where
    midnight_circuits::field::foreign::params::MultiEmulationParams: FieldEmulationParams<F, C::Base>,
{
    type P = midnight_circuits::field::foreign::params::MultiEmulationParams;
    let mut cs = ConstraintSystem::<F>::default();
    let a = cs.instance_column();
    let b = cs.instance_column();
    let _ = E::configure_from_scratch(&mut cs, &[a, b]);
    let all: Vec<String> = cs.gates().iter().map(|g| g.name().to_string()).collect();
    let names: Vec<&str> = all.iter().map(|s| s.as_str()).filter(|n| n.contains("EC ")).collect();
    let (gates, cols) = gates_json(&cs, &names);
    json!({
        "curve": name,
        "base_modulus": format!("0x{}", <C::Base as CircuitField>::modulus().to_str_radix(16)),
        "scalar_modulus": format!("0x{}", <C::ScalarField as CircuitField>::modulus().to_str_radix(16)),
        "a": cf_hex(&C::A),
        "b": cf_hex(&C::B),
        "base_zeta": cf_hex(&C::base_zeta()),
        "scalar_zeta": cf_hex(&C::scalar_zeta()),
        "log2_base": <P as FieldEmulationParams<F, C::Base>>::LOG2_BASE,
        "nb_limbs": <P as FieldEmulationParams<F, C::Base>>::NB_LIMBS,
        "moduli": <P as FieldEmulationParams<F, C::Base>>::moduli().iter().map(|m| format!("0x{}", m.to_str_radix(16))).collect::<Vec<_>>(),
        "gate_names": names,
        "gates": gates,
        "advice_cols": cols,
        "all_gate_names": all,
    })
}

pub fn dump(path: &str) {
    let cs = jub_cs();
    let (gates, cols) = gates_json(&cs, &JUB_GATES);
    let g = <JubjubExtended as midnight_circuits::ecc::curves::CircuitCurve>::CryptographicGroup::default();
    let _ = g;
    use group::Group;
    let gen: JubjubExtended = midnight_curves::JubjubSubgroup::generator().into();
    let (gx, gy) = midnight_circuits::ecc::curves::CircuitCurve::coordinates(&gen).unwrap();
    let out = json!({
        "modulus": F::MODULUS.to_string(),
        "jubjub": {
            "a": fe_hex(&<JubjubExtended as EdwardsCurve>::A),
            "d": fe_hex(&<JubjubExtended as EdwardsCurve>::D),
            "cofactor": <JubjubExtended as midnight_circuits::ecc::curves::CircuitCurve>::COFACTOR.to_string(),
            "scalar_modulus": format!("0x{}", <<JubjubExtended as midnight_circuits::ecc::curves::CircuitCurve>::ScalarField as CircuitField>::modulus().to_str_radix(16)),
            "scalar_num_bits": <<JubjubExtended as midnight_circuits::ecc::curves::CircuitCurve>::ScalarField as PrimeField>::NUM_BITS,
            "gen_x": fe_hex(&gx),
            "gen_y": fe_hex(&gy),
            "gates": gates,
            "advice_cols": cols,
            "all_gate_names": cs.gates().iter().map(|g| g.name().to_string()).collect::<Vec<_>>(),
        },
        "foreign": [
            foreign_json::<K256, SecpChip>("secp256k1"),
            foreign_json::<G1Projective, BlsChip>("bls12_381"),
        ],
    });
    std::fs::write(path, serde_json::to_vec_pretty(&out).unwrap()).unwrap();
}
