//! Native chip: `point_from_coordinates(x, y)` must BIND both caller cells.
//!
//! The one-operation circuits of `circ.rs` feed `point_from_coordinates` with the coordinate
//! cells of an assigned point, which are constrained elsewhere too. Here `x` and `y` are FREE
//! advice cells (`native_gadget().assign`), so the only constraints on them are the two equality
//! constraints `point_from_coordinates` emits towards the freshly witnessed point. Under hook H1
//! the value written for the caller's `x` (resp. `y`) cell is replaced — `v + 1`, and `−v`, which
//! for `x` gives another curve point outside the subgroup — while the chip's own witness stays
//! honest: the real `MockProver` must reject (`oracle_fail` otherwise: the caller's cell is not
//! tied to the returned point; seeded change C06-1).
use std::cell::RefCell;

use ff::Field;
use midnight_circuits::{
    instructions::{AssignmentInstructions, EccInstructions},
    testing_utils::FromScratch,
    types::AssignedNative,
};
use midnight_proofs::{
    circuit::{verif_hooks, Layouter, SimpleFloorPlanner, Value},
    dev::MockProver,
    plonk::{Circuit, ConstraintSystem, Error},
};
use num_bigint::BigUint;
use serde_json::json;

use crate::circ::{self, JubChip, F};
use crate::run::Out;

struct Circ {
    x: F,
    y: F,
    /// H1 counter value at the assignment of the caller's `x` and `y` cells
    idx: RefCell<(usize, usize)>,
}

impl Circuit<F> for Circ {
    type Config = <JubChip as FromScratch<F>>::Config;
    type FloorPlanner = SimpleFloorPlanner;
    type Params = ();

    fn without_witnesses(&self) -> Self {
        unreachable!()
    }

    fn configure(meta: &mut ConstraintSystem<F>) -> Self::Config {
        let committed = meta.instance_column();
        let instance = meta.instance_column();
        JubChip::configure_from_scratch(meta, &[committed, instance])
    }

    fn synthesize(&self, config: Self::Config, mut layouter: impl Layouter<F>) -> Result<(), Error> {
        let chip = JubChip::new_from_scratch(&config);
        let ng = chip.native_gadget();
        let ix = verif_hooks::counter::<F>();
        let xa: AssignedNative<F> = ng.assign(&mut layouter, Value::known(self.x))?;
        let iy = verif_hooks::counter::<F>();
        let ya: AssignedNative<F> = ng.assign(&mut layouter, Value::known(self.y))?;
        *self.idx.borrow_mut() = (ix, iy);
        let _p = chip.point_from_coordinates(&mut layouter, &xa, &ya)?;
        chip.load_from_scratch(&mut layouter)
    }
}

fn run(x: F, y: F, faults: Vec<(usize, verif_hooks::Fault<F>)>) -> (Result<bool, String>, (usize, usize)) {
    let circ = Circ { x, y, idx: RefCell::new((0, 0)) };
    verif_hooks::set_plan::<F>(verif_hooks::TamperPlan::new(faults));
    let r = mzkh::catch(|| MockProver::run(11, &circ, vec![vec![], vec![]]));
    let _ = verif_hooks::take_plan::<F>();
    let idx = *circ.idx.borrow();
    let v = match r {
        Err(p) => Err(format!("panic: {p}")),
        Ok(Err(e)) => Err(format!("error: {e:?}")),
        Ok(Ok(prover)) => match mzkh::catch(|| prover.verify()) {
            Ok(Ok(())) => Ok(true),
            Ok(Err(_)) => Ok(false),
            Err(p) => Err(format!("verify panic: {p}")),
        },
    };
    (v, idx)
}

/// One subgroup point `dlog·G`: honest run accepted; each fault on a caller cell rejected.
pub fn case(class: &str, dlog: BigUint) -> Out {
    let mut ctx = Out::default();
    let pt = circ::jub::pt_of(&circ::jub::point_of(&dlog));
    let x: F = mzkh::fe_from_big::<F>(&pt.x);
    let y: F = mzkh::fe_from_big::<F>(&pt.y);
    ctx.count(&format!("class:jub:coords_free:{class}"));
    let (v0, (ix, iy)) = run(x, y, vec![]);
    if v0 != Ok(true) {
        ctx.oracle_fail(
            &format!("honest-rejected:jub:coords_free:{class}"),
            "point_from_coordinates on free coordinate cells of a subgroup point rejects the honest witness",
            json!({"x": mzkh::big_hex(&pt.x), "y": mzkh::big_hex(&pt.y), "verdict": format!("{v0:?}")}),
        );
        return ctx;
    }
    let faults: Vec<(&str, usize, Box<dyn Fn(F) -> F>)> = vec![
        ("x+1", ix, Box::new(|v| v + F::ONE)),
        ("-x", ix, Box::new(|v| -v)),
        ("y+1", iy, Box::new(|v| v + F::ONE)),
        ("-y", iy, Box::new(|v| -v)),
    ];
    for (name, idx, f) in faults {
        if f(x) == x && idx == ix || f(y) == y && idx == iy {
            continue; // the fault does not change the value (x = 0)
        }
        let (v, _) = run(x, y, vec![(idx, f)]);
        ctx.count("coords_free:tried");
        if v == Ok(true) {
            ctx.oracle_fail(
                &format!("coords-input-unbound:jub:{name}:{class}"),
                "native point_from_coordinates accepts a caller coordinate cell that differs from the coordinate of the returned point (the cell is not bound)",
                json!({"x": mzkh::big_hex(&pt.x), "y": mzkh::big_hex(&pt.y), "fault": name, "advice_index": idx}),
            );
        } else {
            ctx.count("coords_free:rejected");
        }
    }
    ctx
}
