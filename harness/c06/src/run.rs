//! Correspondence and oracle runs of property C06.
//!
//! For every case the REAL chip synthesises a one-operation circuit, the REAL `MockProver`
//! checks it, and
//! * the request line (operands as they sit in the circuit) goes to the Lean model, whose answer
//!   must equal the implementation's (`ok <result>` / `unsat`; for the native chip also the full
//!   content of the nine ECC columns and the three ECC selectors);
//! * the oracle of the property is checked directly: an honest witness of a satisfiable
//!   operation is accepted and the result in the circuit equals the result of the group
//!   operation computed by the curve library (`oracle_fail` otherwise);
//! * under fault injection (hook H1) on the advice cells written by the operation, and with the
//!   public inputs bound to a different result, the circuit must reject (`oracle_fail`
//!   otherwise).
use midnight_proofs::{circuit::verif_hooks::Fault, dev::MockProver};
use mzkh::Ctx;
use num_bigint::BigUint;
use rand_core::RngCore;
use serde_json::json;

use crate::{
    circ::{self, Op, Pt, Run, Spec, Suite, F},
    gates,
};

/// Buffered output of one job (jobs run on worker threads; events are replayed in order).
pub enum Event {
    Count(String, u64),
    Case(String, String, String),
    Fail(String, String, serde_json::Value),
}

#[derive(Default)]
pub struct Out {
    ev: Vec<Event>,
}

impl Out {
    pub(crate) fn count(&mut self, k: &str) {
        self.ev.push(Event::Count(k.to_string(), 1));
    }
    fn count_n(&mut self, k: &str, n: u64) {
        self.ev.push(Event::Count(k.to_string(), n));
    }
    pub(crate) fn case(&mut self, kind: &str, _nontrivial: bool, line: &str, answer: &str) {
        self.ev.push(Event::Case(kind.to_string(), line.to_string(), answer.to_string()));
    }
    pub(crate) fn oracle_fail(&mut self, key: &str, what: &str, detail: serde_json::Value) {
        self.ev.push(Event::Fail(key.to_string(), what.to_string(), detail));
    }
}

type Job = Box<dyn FnOnce() -> Out + Send>;

/// Runs the jobs on `threads` OS threads (each job's synthesis stays on one thread, as the H1
/// tamper plan is thread-local) and replays their events in job order.
fn run_jobs(ctx: &mut Ctx, jobs: Vec<Job>, threads: usize) {
    use std::sync::{atomic::{AtomicUsize, Ordering}, Mutex};
    let n = jobs.len();
    let slots: Vec<Mutex<Option<Job>>> = jobs.into_iter().map(|j| Mutex::new(Some(j))).collect();
    let results: Vec<Mutex<Option<Out>>> = (0..n).map(|_| Mutex::new(None)).collect();
    let next = AtomicUsize::new(0);
    std::thread::scope(|sc| {
        for _ in 0..threads.max(1) {
            sc.spawn(|| loop {
                let i = next.fetch_add(1, Ordering::SeqCst);
                if i >= n {
                    break;
                }
                let job = slots[i].lock().unwrap().take().unwrap();
                let out = match mzkh::catch(job) {
                    Ok(o) => o,
                    Err(p) => {
                        let mut o = Out::default();
                        o.oracle_fail(&format!("harness-job-panic:{i}"), "a harness job panicked outside the guarded region", json!({"panic": p}));
                        o
                    }
                };
                *results[i].lock().unwrap() = Some(out);
            });
        }
    });
    for r in results {
        let out = r.into_inner().unwrap().unwrap_or_default();
        for e in out.ev {
            match e {
                Event::Count(k, n) => ctx.count_n(&k, n),
                Event::Case(kind, line, ans) => ctx.case(&kind, true, &line, &ans),
                Event::Fail(k, w, d) => ctx.oracle_fail(&k, &w, d),
            }
        }
    }
}

static LAYOUT: std::sync::OnceLock<JubLayout> = std::sync::OnceLock::new();
pub(crate) fn layout() -> &'static JubLayout {
    LAYOUT.get_or_init(JubLayout::new)
}

fn b(n: u64) -> BigUint {
    BigUint::from(n)
}

fn pow2(n: u32) -> BigUint {
    BigUint::from(1u8) << n
}

fn hex(n: &BigUint) -> String {
    mzkh::big_hex(n)
}

fn rand_big(rng: &mut impl RngCore, below: &BigUint) -> BigUint {
    let mut bytes = vec![0u8; (below.bits() as usize + 7) / 8 + 8];
    rng.fill_bytes(&mut bytes);
    BigUint::from_bytes_le(&bytes) % below
}

/// Run with an adaptive number of rows.
fn run_k<S: Suite>(spec: &Spec, faults: impl Fn() -> Vec<(usize, Fault<F>)>, inst: Option<Vec<F>>) -> (Run, u32) {
    let mut spec = spec.clone();
    loop {
        let r = S::run(&spec, faults(), inst.clone());
        let small = match &r.verdict {
            Err(e) => e.contains("NotEnoughRowsAvailable") || e.contains("not enough rows"),
            _ => false,
        };
        if small && spec.k < 19 {
            spec.k += 1;
            continue;
        }
        return (r, spec.k);
    }
}

fn no_faults() -> Vec<(usize, Fault<F>)> {
    vec![]
}

fn pt_word(weier: bool, p: &Pt, fixed: bool) -> String {
    let k = if fixed { "f" } else { "w" };
    if weier {
        format!("{k}:{}:{}:{}", p.id.unwrap_or(false) as u8, hex(&p.x), hex(&p.y))
    } else {
        format!("{k}:{}:{}", hex(&p.x), hex(&p.y))
    }
}

/// The request line of a case (operands as coordinates).
fn op_line<S: Suite>(spec: &Spec) -> String {
    let pts: Vec<String> =
        spec.pts.iter().map(|(d, f)| pt_word(S::WEIER, &S::input_pt(d), *f)).collect();
    let terms = || -> String {
        spec.scalars
            .iter()
            .zip(pts.iter())
            .map(|(s, p)| format!("{} {}", hex(s), p))
            .collect::<Vec<_>>()
            .join(" ")
    };
    let body = match &spec.op {
        Op::Assign | Op::AssignFixed | Op::Double | Op::Neg | Op::Coords | Op::SubgroupCheck => {
            format!("{} {}", spec.op.name(), pts[0])
        }
        Op::Add | Op::IsEqual => format!("{} {} {}", spec.op.name(), pts[0], pts[1]),
        Op::Select(bit) => format!("select {} {} {}", *bit as u8, pts[0], pts[1]),
        Op::Msm | Op::MsmBounded(_) => format!("msm {} {}", pts.len(), terms()),
        Op::MsmBits(_) => format!("msm_bits {} {}", pts.len(), terms()),
        Op::MulConst => format!("mul_const {} {}", hex(&spec.scalars[0]), pts[0]),
        Op::MulLeBytes => format!("mul_bits 256 {} {}", hex(&spec.scalars[0]), pts[0]),
        Op::MulConvert => format!("mul_bits 255 {} {}", hex(&spec.scalars[0]), pts[0]),
    };
    format!("{} {}", S::NAME, body)
}

/// Content of the nine ECC advice columns and the three ECC selectors of the native chip.
pub struct JubLayout {
    cols: Vec<usize>,
    sels: Vec<usize>,
}

impl JubLayout {
    pub fn new() -> Self {
        let cs = gates::jub_cs();
        let (cols, sels) = gates::ecc_cols_and_selectors(&cs, &gates::JUB_GATES);
        assert_eq!(cols.len(), 9);
        assert_eq!(sels.len(), 3);
        JubLayout { cols, sels }
    }

    pub fn table(&self, mp: &MockProver<F>) -> String {
        use midnight_proofs::dev::CellValue;
        let adv = mp.advice();
        let sel = mp.selectors();
        let n = adv[self.cols[0]].len();
        let mut rows = vec![];
        for r in 0..n {
            let cells: Vec<Option<F>> = self
                .cols
                .iter()
                .map(|c| match &adv[*c][r] {
                    CellValue::Assigned(v) => Some(*v),
                    _ => None,
                })
                .collect();
            let flags: Vec<bool> = self.sels.iter().map(|s| sel[*s][r]).collect();
            if cells.iter().all(|c| c.is_none()) && !flags.iter().any(|f| *f) {
                continue;
            }
            let fl = format!(
                "{}{}{}",
                if flags[0] { "d" } else { "-" },
                if flags[1] { "c" } else { "-" },
                if flags[2] { "m" } else { "-" }
            );
            let cs: Vec<String> = cells
                .iter()
                .map(|c| c.map(|v| mzkh::fe_hex(&v)).unwrap_or_else(|| "_".into()))
                .collect();
            rows.push(format!("{fl}:{}", cs.join(",")));
        }
        if rows.is_empty() {
            "-".into()
        } else {
            rows.join(";")
        }
    }
}

/// Selector indices of the four EC gates and the condition column of a foreign suite.
pub struct ForeignLayout {
    /// selectors of on_curve, slope, tangent, lambda_squared
    sels: [usize; 4],
    cond_col: usize,
}

impl ForeignLayout {
    pub fn new<S: Suite>() -> Self {
        let cs = S::raw_cs();
        let names = [
            "Foreign-field EC is_on_curve",
            "Foreign-field EC lambda slope",
            "Foreign-field EC assert_tangent",
            "Foreign-field EC assert_lambda_squared",
        ];
        let mut sels = [0usize; 4];
        for (i, n) in names.iter().enumerate() {
            let (_, s) = gates::ecc_cols_and_selectors(&cs, &[n]);
            assert_eq!(s.len(), 1, "gate {n} must have exactly one selector");
            sels[i] = s[0];
        }
        // the condition column: queried at rotation +1 by the tangent gate, not a limb/quotient column
        let cond_col = gates::cond_col(&cs, names[2]);
        ForeignLayout { sels, cond_col }
    }

    /// The activations of the EC gates found in the table, in row order.
    pub fn acts<S: Suite>(&self, mp: &MockProver<F>, fl: &circ::FLayout) -> String {
        use midnight_proofs::dev::CellValue;
        let adv = mp.advice();
        let sel = mp.selectors();
        let m = S::base_modulus();
        let lb = S::log2_base();
        let n = adv[0].len();
        let cell = |c: usize, r: usize| -> BigUint {
            match &adv[c][r] {
                CellValue::Assigned(v) => mzkh::fe_big(v),
                _ => BigUint::from(0u8),
            }
        };
        let val = |cols: &Vec<usize>, r: usize| -> String {
            let mut acc = BigUint::from(1u8);
            for (i, c) in cols.iter().enumerate() {
                acc += cell(*c, r) << (lb as usize * i);
            }
            hex(&(acc % &m))
        };
        let native_p = mzkh::fe_big(&(-<F as ff::Field>::ONE)) + 1u8;
        let cond = |r: usize| -> String {
            let v = cell(self.cond_col, r);
            if v == &native_p - 1u8 {
                "-1".to_string()
            } else {
                v.to_string()
            }
        };
        let mut out = vec![];
        for r in 1..n.saturating_sub(1) {
            if sel[self.sels[0]][r] {
                out.push(format!("oc:{}:{}:{}", cond(r + 1), val(&fl.x_cols, r), val(&fl.x_cols, r + 1)));
            }
            if sel[self.sels[1]][r] {
                out.push(format!(
                    "sl:{}:{}:{}:{}:{}:{}",
                    cond(r + 1),
                    val(&fl.x_cols, r - 1),
                    val(&fl.x_cols, r),
                    val(&fl.z_cols, r - 1),
                    val(&fl.z_cols, r),
                    val(&fl.x_cols, r + 1)
                ));
            }
            if sel[self.sels[2]][r] {
                out.push(format!("tg:{}:{}:{}:{}", cond(r + 1), val(&fl.x_cols, r), val(&fl.z_cols, r), val(&fl.x_cols, r + 1)));
            }
            if sel[self.sels[3]][r] {
                out.push(format!(
                    "ls:{}:{}:{}:{}:{}",
                    cond(r + 1),
                    val(&fl.x_cols, r - 1),
                    val(&fl.x_cols, r),
                    val(&fl.z_cols, r),
                    val(&fl.x_cols, r + 1)
                ));
            }
        }
        if out.is_empty() {
            "-".into()
        } else {
            out.join(";")
        }
    }

    /// Structural fingerprint of the whole circuit: number of rows on which each selector of the
    /// constraint system is enabled, and number of assigned advice cells. Circuit structure does
    /// not depend on the witness, so this is a function of the instruction and of which inputs
    /// are constants.
    pub fn fingerprint(mp: &MockProver<F>) -> String {
        use midnight_proofs::dev::CellValue;
        let sel: Vec<String> = mp.selectors().iter().map(|c| c.iter().filter(|b| **b).count().to_string()).collect();
        let adv: usize = mp.advice().iter().map(|c| c.iter().filter(|v| matches!(v, CellValue::Assigned(_))).count()).sum();
        format!("sel={} adv={}", sel.join(","), adv)
    }

    /// Number of activations of each EC gate.
    pub fn shape(&self, mp: &MockProver<F>) -> String {
        let sel = mp.selectors();
        let cnt = |i: usize| sel[self.sels[i]].iter().filter(|b| **b).count();
        format!("oc={} sl={} tg={} ls={}", cnt(0), cnt(1), cnt(2), cnt(3))
    }
}

fn foreign_layout<S: Suite + 'static>() -> &'static ForeignLayout {
    static SECP: std::sync::OnceLock<ForeignLayout> = std::sync::OnceLock::new();
    static BLS: std::sync::OnceLock<ForeignLayout> = std::sync::OnceLock::new();
    if S::NAME == "secp" {
        SECP.get_or_init(ForeignLayout::new::<S>)
    } else {
        BLS.get_or_init(ForeignLayout::new::<S>)
    }
}

fn render_pt(p: &Pt) -> String {
    match p.id {
        None => format!("{} {}", hex(&p.x), hex(&p.y)),
        Some(i) => format!("{} {} {}", i as u8, hex(&p.x), hex(&p.y)),
    }
}

/// Is the case expected to be unsatisfiable by the documentation of the instruction?
fn documented_unsat<S: Suite>(spec: &Spec) -> bool {
    let zero = b(0);
    match &spec.op {
        // "The identity cannot be constructed through this function."
        Op::Coords => S::WEIER && spec.pts[0].0 == zero,
        // msm_by_le_bits: "Unsatisfiable Circuit: if the precondition (base != identity) is violated"
        Op::MsmBits(_) => spec.pts.iter().any(|(d, _)| *d == zero),
        _ => false,
    }
}

/// The recorded finding D-C06-2.
fn known_identity_large_const<S: Suite>(spec: &Spec) -> bool {
    S::WEIER
        && spec.op == Op::MulConst
        && spec.pts[0].0 == b(0)
        && (&spec.scalars[0] % S::order()) >= pow2(128)
}

/// One case: correspondence line + oracles. Returns the run (for the tamper sweep).
fn do_case<S: Suite + 'static>(ctx: &mut Out, class: &str, spec: &Spec) {
    let lay: Option<&JubLayout> = if S::WEIER { None } else { Some(layout()) };
    let line = op_line::<S>(spec);
    let (r, k) = run_k::<S>(spec, no_faults, None);
    let kind = format!("{}:{}", S::NAME, spec.op.name());
    ctx.count(&format!("class:{}:{}", S::NAME, class));
    let key = format!("{}:{}:{}", S::NAME, spec.op.name(), class);
    let detail = |r: &Run| {
        json!({"request": line.chars().take(1500).collect::<String>(), "verdict": format!("{:?}", r.verdict),
               "failures": r.failures, "result": format!("{:?}", r.outcome.result), "expected": format!("{:?}", r.expected), "k": k})
    };
    let answer = match &r.verdict {
        Ok(true) => {
            ctx.count(&format!("accepted:{}", S::NAME));
            if spec.op == Op::IsEqual {
                format!("ok {}", r.outcome.bits.first().map(|b| *b as u8).unwrap_or(9))
            } else {
                let res = r.outcome.result.clone();
                match res {
                    None => "ok ?".to_string(),
                    Some(p) => {
                        if let (Some(lay), Some(mp)) = (lay, r.prover.as_ref()) {
                            format!("ok {} | {}", render_pt(&p), lay.table(mp))
                        } else {
                            format!("ok {}", render_pt(&p))
                        }
                    }
                }
            }
        }
        Ok(false) => "unsat".to_string(),
        Err(e) => {
            ctx.count(&format!("synthesis-panic:{kind}"));
            let _ = e;
            "unsat".to_string()
        }
    };
    ctx.case(&kind, true, &line, &answer);
    // foreign chips: the activations of the EC custom gates (values for the deterministic
    // instructions, counts for those that draw a random blinding point)
    if S::WEIER && r.verdict == Ok(true) {
        if let (Some(mp), Some(fl)) = (r.prover.as_ref(), r.outcome.flayout.as_ref()) {
            let lay = foreign_layout::<S>();
            let body = line.splitn(2, ' ').nth(1).unwrap_or("");
            match &spec.op {
                Op::Assign | Op::AssignFixed | Op::Coords | Op::Add | Op::Double | Op::Neg | Op::Select(_) => {
                    ctx.case(&format!("{}:acts:{}", S::NAME, spec.op.name()), true, &format!("{} acts {}", S::NAME, body), &lay.acts::<S>(mp, fl));

                }
                Op::MulConst | Op::Msm | Op::MsmBits(_) | Op::MsmBounded(_) | Op::SubgroupCheck => {
                    let extra = match &spec.op {
                        Op::MsmBits(l) => format!("lens={} ", mzkh::join(l)),
                        Op::MsmBounded(l) => format!("bounds={} ", mzkh::join(l)),
                        _ => String::new(),
                    };
                    ctx.case(&format!("{}:shape:{}", S::NAME, spec.op.name()), true, &format!("{} shape {}{}", S::NAME, extra, body), &lay.shape(mp));
                }
                _ => {}
            }
        }
    }
    // structural fingerprint of the parameter-free instructions (all chips) and of the
    // multiplication instructions on fixed parameters
    if r.verdict == Ok(true) {
        // w = witness, f = constant, i = constant identity (constants are cached per value)
        let pattern: String = spec
            .pts
            .iter()
            .map(|(d, f)| if !*f { 'w' } else if *d == b(0) { 'i' } else { 'f' })
            .collect();
        let key = match &spec.op {
            Op::Assign | Op::AssignFixed | Op::Coords | Op::Add | Op::Double | Op::Neg | Op::Select(_) | Op::IsEqual => {
                Some(format!("{} {}", spec.op.name(), pattern))
            }
            Op::MulConst if !class.contains("rand'") && !class.ends_with("xrand") => {
                Some(format!("mul_const:{} {}", hex(&(&spec.scalars[0] % S::order())), pattern))
            }
            Op::Msm if spec.pts.len() <= 3 => Some(format!("msm {}", pattern)),
            Op::MsmBounded(b) => Some(format!("msm_bounded:{} {}", mzkh::join(b), pattern)),
            Op::MsmBits(l) => Some(format!("msm_bits:{} {}", mzkh::join(l), pattern)),
            Op::MulLeBytes => Some(format!("mul_le_bytes {}", pattern)),
            Op::MulConvert => Some(format!("mul_convert {}", pattern)),
            Op::SubgroupCheck => Some(format!("subgroup_check {}", pattern)),
            _ => None,
        };
        if let (Some(mp), Some(key)) = (r.prover.as_ref(), key) {
            ctx.case(
                &format!("{}:fingerprint:{}", S::NAME, spec.op.name()),
                false,
                &format!("{} fingerprint {}", S::NAME, key),
                &ForeignLayout::fingerprint(mp),
            );
        }
    }
    // oracle: honest witness accepted, result = group operation
    let sat_expected = !documented_unsat::<S>(spec);
    match (&r.verdict, sat_expected) {
        (Ok(true), true) => {
            if spec.op == Op::IsEqual {
                let expect = spec.pts[0].0.clone() % S::order() == spec.pts[1].0.clone() % S::order();
                if r.outcome.bits.first() != Some(&expect) {
                    ctx.oracle_fail(&format!("wrong-result:{key}"), "is_equal returns the wrong bit", detail(&r));
                }
            } else if !same_point(r.outcome.result.as_ref(), &r.expected, S::WEIER) {
                ctx.oracle_fail(
                    &format!("wrong-result:{key}"),
                    "the circuit accepts an honest witness whose result differs from the group operation",
                    detail(&r),
                );
            }
        }
        (Ok(true), false) => {
            ctx.oracle_fail(&format!("accepted-documented-unsat:{key}"), "a case documented as unsatisfiable is accepted", detail(&r));
        }
        (_, true) => {
            if known_identity_large_const::<S>(spec) {
                ctx.oracle_fail(
                    "foreign:mul_const:identity-base:scalar>=2^128",
                    "mul_by_constant with a constant >= 2^128 rejects the identity base (honest witness generation panics)",
                    detail(&r),
                );
            } else {
                ctx.oracle_fail(
                    &format!("honest-rejected:{key}"),
                    "an honest witness of a satisfiable ECC instruction is rejected (or its synthesis panics)",
                    detail(&r),
                );
            }
        }
        (_, false) => {}
    }
}

/// Equality of circuit points as group elements (coordinates of an identity are irrelevant on
/// the Weierstrass chips).
fn same_point(a: Option<&Pt>, e: &Pt, weier: bool) -> bool {
    match a {
        None => false,
        Some(a) => {
            if weier {
                a.id == e.id && (a.id == Some(true) || (a.x == e.x && a.y == e.y))
            } else {
                a.x == e.x && a.y == e.y
            }
        }
    }
}

/// Fault values applied to a targeted advice cell.
fn fault(kind: usize, rnd: F) -> Fault<F> {
    use ff::Field;
    match kind {
        0 => Box::new(|v| v + F::ONE),
        1 => Box::new(|v| F::ONE - v),
        2 => Box::new(|v| -v),
        3 => Box::new(move |_| rnd),
        _ => Box::new(|v| v.double()),
    }
}

/// Tamper sweep (H1) over the advice cells written by the operation of `spec`: every fault must
/// be rejected, also when the public inputs are adjusted to the tampered value.
fn tamper<S: Suite>(ctx: &mut Out, mut rng: rand_chacha::ChaCha8Rng, class: &str, spec: &Spec, max_targets: usize, kinds: &[usize]) {
    use ff::Field;
    let mut spec = spec.clone();
    spec.bind_pi = true;
    let honest_inst = S::honest_instance(&spec);
    let (r0, k) = run_k::<S>(&spec, no_faults, Some(honest_inst.clone()));
    spec.k = k;
    let key = format!("{}:{}:{}", S::NAME, spec.op.name(), class);
    if r0.verdict != Ok(true) {
        if !(known_identity_large_const::<S>(&spec) || documented_unsat::<S>(&spec)) {
            ctx.oracle_fail(
                &format!("honest-rejected-pi:{key}"),
                "honest witness with inputs and result bound as public inputs is rejected",
                json!({"request": op_line::<S>(&spec).chars().take(1500).collect::<String>(), "verdict": format!("{:?}", r0.verdict), "failures": r0.failures}),
            );
        }
        return;
    }
    ctx.count(&format!("tamper:case:{}:{}", S::NAME, spec.op.name()));
    // a different result must be rejected
    {
        let wrong = S::instance_with_result(&spec, &b(0xC06C06));
        let r = S::run(&spec, vec![], Some(wrong));
        ctx.count("forged-instance:tried");
        if r.verdict == Ok(true) && spec.op != Op::IsEqual {
            ctx.oracle_fail(
                &format!("wrong-instance-accepted:{key}"),
                "the circuit accepts public inputs claiming a different result",
                json!({"request": op_line::<S>(&spec).chars().take(1500).collect::<String>()}),
            );
        }
    }
    let (lo, hi) = (r0.outcome.op_start, r0.outcome.op_end);
    if hi <= lo {
        return;
    }
    let n = hi - lo;
    let targets: Vec<usize> = if n <= max_targets {
        (lo..hi).collect()
    } else {
        // always the first and last cells, then a seeded sample
        let mut t = vec![lo, lo + 1, hi - 2, hi - 1];
        while t.len() < max_targets {
            let c = lo + (rng.next_u64() as usize) % n;
            if !t.contains(&c) {
                t.push(c);
            }
        }
        t
    };
    for idx in targets {
        for kind in kinds.iter() {
            let rnd = F::random(&mut rng);
            let r = S::run(&spec, vec![(idx, fault(*kind, rnd))], Some(honest_inst.clone()));
            ctx.count("tamper:tried");
            match &r.verdict {
                Ok(true) => {
                    // accepted with the honest public inputs: the bound result is unchanged
                    ctx.count(&format!("tamper:accepted-result-unchanged:{}:{}", S::NAME, spec.op.name()));
                }
                Ok(false) => ctx.count("tamper:rejected"),
                Err(_) => ctx.count("tamper:panic"),
            }
            // the same fault with the public inputs following the tampered value
            if let Some(mp) = r.prover.as_ref() {
                let _ = mp;
            }
            if r.verdict == Ok(false) {
                // find the honest value of the tampered cell among the public inputs
                let hit = r.hit.clone();
                if let Some((before, after)) = hit {
                    if before != after {
                        let nb_in = honest_inst.len() - S::result_pi_len(&spec);
                        let mut inst2 = honest_inst.clone();
                        let mut changed = false;
                        for (i, v) in inst2.iter_mut().enumerate() {
                            if i >= nb_in && *v == before {
                                *v = after;
                                changed = true;
                            }
                        }
                        if changed {
                            let r2 = S::run(&spec, vec![(idx, fault_const(after))], Some(inst2));
                            ctx.count("tamper:tried-with-adjusted-instance");
                            if r2.verdict == Ok(true) {
                                ctx.oracle_fail(
                                    &format!("tampered-result-accepted:{key}"),
                                    "a tampered result cell is accepted when the public inputs follow it",
                                    json!({"request": op_line::<S>(&spec).chars().take(1500).collect::<String>(), "advice_index": idx, "fault": kind}),
                                );
                            }
                        }
                    }
                }
            }
        }
    }
}

/// Forged-result search on the foreign chips (hook `ecc::foreign::verif_hooks`): the prover
/// replaces the point witnessed by the LAST `assign_point_unchecked` of the circuit (the result
/// `r` of `add` / `double`) by another group element (a curve point, or the flagged identity) and
/// the public inputs claim that element as the result. Every value the chip derives from `r`
/// (quotients and carries of the EC gates, equality bits) follows the forged value, only the
/// slopes keep their honest values. Must be rejected for every operand class.
fn forge_result<S: Suite>(ctx: &mut Out, class: &str, spec: &Spec) {
    use midnight_circuits::ecc::foreign::verif_hooks as point_hooks;
    let mut spec = spec.clone();
    spec.bind_pi = true;
    let honest_inst = S::honest_instance(&spec);
    let (r0, k) = run_k::<S>(&spec, no_faults, Some(honest_inst.clone()));
    spec.k = k;
    if r0.verdict != Ok(true) {
        return;
    }
    point_hooks::set_point_plan(vec![]);
    let _ = S::run(&spec, vec![], Some(honest_inst));
    let calls = point_hooks::take_point_plan();
    if calls == 0 {
        return;
    }
    let key = format!("{}:{}:{}", S::NAME, spec.op.name(), class);
    ctx.count(&format!("forge:case:{}:{}", S::NAME, spec.op.name()));
    for x in [b(0xC06C06), b(0)] {
        let pt = S::input_pt(&x);
        if same_point(Some(&pt), &r0.expected, true) {
            continue;
        }
        point_hooks::set_point_plan(vec![(calls - 1, pt.x.clone(), pt.y.clone(), pt.id.unwrap_or(false))]);
        let r = S::run(&spec, vec![], Some(S::instance_with_result(&spec, &x)));
        let _ = point_hooks::take_point_plan();
        ctx.count("forge:tried");
        if r.verdict == Ok(true) {
            ctx.oracle_fail(
                &format!("forged-result-accepted:{key}"),
                "the circuit accepts a prover-chosen result point different from the group operation (public inputs bound to the forged point)",
                json!({"request": op_line::<S>(&spec).chars().take(1500).collect::<String>(), "forged_result": render_pt(&pt), "expected": render_pt(&r0.expected)}),
            );
        } else {
            ctx.count("forge:rejected");
        }
    }
}

fn fault_const(v: F) -> Fault<F> {
    Box::new(move |_| v)
}

/// Operand classes (pairs of discrete logs) for binary operations.
fn pair_classes(order: &BigUint, rnd: &[BigUint]) -> Vec<(&'static str, BigUint, BigUint)> {
    let r1 = rnd[0].clone();
    let r2 = rnd[1].clone();
    vec![
        ("id+id", b(0), b(0)),
        ("id+G", b(0), b(1)),
        ("G+id", b(1), b(0)),
        ("id+rand", b(0), r1.clone()),
        ("rand+id", r1.clone(), b(0)),
        ("G+G", b(1), b(1)),
        ("G+rand", b(1), r1.clone()),
        ("rand+rand'", r1.clone(), r2.clone()),
        ("P=Q", r1.clone(), r1.clone()),
        ("P=-Q", r1.clone(), order - &r1),
        ("G+(-G)", b(1), order - 1u8),
        ("P+2P", r2.clone(), (&r2 * 2u8) % order),
        ("P+(-2P)", r2.clone(), order - (&r2 * 2u8) % order),
    ]
}

fn scalar_classes(order: &BigUint, bits: u32, rnd: &[BigUint]) -> Vec<(&'static str, BigUint)> {
    vec![
        ("0", b(0)),
        ("1", b(1)),
        ("2", b(2)),
        ("r-1", order - 1u8),
        ("r", order.clone()),
        ("2^bits-1", pow2(bits) - 1u8),
        ("rand", rnd[2].clone()),
        ("rand'", rnd[3].clone()),
    ]
}

fn spec(op: Op, pts: Vec<(BigUint, bool)>, scalars: Vec<BigUint>, k: u32) -> Spec {
    Spec { op, pts, scalars, bind_pi: false, k }
}

struct Budget {
    quick: bool,
    /// number of random repetitions of the cheap classes
    reps: usize,
    /// msm sizes
    msm_sizes: Vec<usize>,
    /// all scalar classes in single-term msm
    full_scalars: bool,
    tamper_targets: usize,
    tamper_kinds: Vec<usize>,
}

struct Jobs {
    v: Vec<Job>,
}

impl Jobs {
    fn case<S: Suite + 'static>(&mut self, class: &str, sp: Spec) {
        let class = class.to_string();
        self.v.push(Box::new(move || {
            let mut o = Out::default();
            do_case::<S>(&mut o, &class, &sp);
            o
        }));
    }
    fn forge<S: Suite + 'static>(&mut self, class: &str, sp: Spec) {
        let class = class.to_string();
        self.v.push(Box::new(move || {
            let mut out = Out::default();
            forge_result::<S>(&mut out, &class, &sp);
            out
        }));
    }

    fn tamper<S: Suite + 'static>(&mut self, ctx: &Ctx, class: &str, sp: Spec, targets: usize, kinds: Vec<usize>) {
        let class = class.to_string();
        let rng = ctx.rng(&format!("tamper:{}:{}:{}", S::NAME, sp.op.name(), class));
        self.v.push(Box::new(move || {
            let mut o = Out::default();
            tamper::<S>(&mut o, rng, &class, &sp, targets, &kinds);
            o
        }));
    }
}

fn suite_jobs<S: Suite + 'static>(ctx: &Ctx, jobs: &mut Jobs, bud: &Budget, scalar_bits: u32) {
    let order = S::order();
    let mut rng = ctx.rng(&format!("cases:{}", S::NAME));
    let k_small = if S::WEIER { 12 } else { 9 };
    let k_mul = if S::WEIER { 16 } else { 11 };
    let lean = S::WEIER && bud.quick;
    for rep in 0..bud.reps {
        let rnd: Vec<BigUint> = (0..6).map(|_| rand_big(&mut rng, &order)).collect();
        // binary / unary operations on every operand class
        for (ci, (class, p, q)) in pair_classes(&order, &rnd).into_iter().enumerate() {
            for (fp, fq) in [(false, false), (false, true)] {
                if fq && (rep > 0 || (lean && ci % 4 != 1)) {
                    continue;
                }
                let cl = format!("{class}{}", if fq { ":Qfixed" } else { "" });
                jobs.case::<S>(&cl, spec(Op::Add, vec![(p.clone(), fp), (q.clone(), fq)], vec![], k_small));
            }
            if rep == 0 && !(lean && ci % 3 != 0) {
                jobs.case::<S>(class, spec(Op::IsEqual, vec![(p.clone(), false), (q.clone(), false)], vec![], k_small));
                jobs.case::<S>(class, spec(Op::Select(ci % 2 == 0), vec![(p.clone(), false), (q.clone(), false)], vec![], k_small));
            }
        }
        for (class, p) in [("id", b(0)), ("G", b(1)), ("rand", rnd[0].clone()), ("-G", &order - 1u8), ("2G", b(2))] {
            if rep > 0 && class != "rand" {
                continue;
            }
            if lean && (class == "-G" || class == "2G") {
                continue;
            }
            for op in [Op::Double, Op::Neg, Op::Assign, Op::AssignFixed, Op::Coords] {
                jobs.case::<S>(class, spec(op, vec![(p.clone(), false)], vec![], k_small));
            }
        }
        // multiplication by a constant: scalar classes x base classes, plus the 64/128-bit bands
        let mut consts = scalar_classes(&order, scalar_bits, &rnd);
        consts.extend(vec![
            ("2^64-1", pow2(64) - 1u8),
            ("2^64", pow2(64)),
            ("2^64+1", pow2(64) + 1u8),
            ("2^64+5", pow2(64) + 5u8),
            ("2^127", pow2(127)),
            ("2^127+1", pow2(127) + 1u8),
            ("2^128-1", pow2(128) - 1u8),
            ("2^128", pow2(128)),
            ("2^128+1", pow2(128) + 1u8),
            ("2^200+12345", pow2(200) + 12345u32),
            ("8", b(8)),
        ]);
        for (sc, s) in consts.iter() {
            for (pc, p) in [("id", b(0)), ("G", b(1)), ("rand", rnd[1].clone())] {
                if rep > 0 && !(sc.starts_with("rand") && pc == "rand") {
                    continue;
                }
                if lean {
                    let keep = match pc {
                        "rand" => !["2", "rand'", "2^64-1", "8", "2^bits-1"].contains(sc),
                        "id" => ["0", "2^64", "2^200+12345", "r-1"].contains(sc),
                        _ => ["2^64+5"].contains(sc),
                    };
                    if !keep {
                        continue;
                    }
                }
                jobs.case::<S>(&format!("{pc}x{sc}"), spec(Op::MulConst, vec![(p.clone(), false)], vec![s.clone()], k_mul));
            }
        }
        // variable-base multiplication / msm
        let scs = scalar_classes(&order, scalar_bits, &rnd);
        for (sc, s) in scs.iter() {
            if !bud.full_scalars && !["0", "1", "r-1", "rand"].contains(sc) {
                continue;
            }
            for (pc, p) in [("id", b(0)), ("G", b(1)), ("rand", rnd[1].clone())] {
                if rep > 0 && !(sc.starts_with("rand") && pc == "rand") {
                    continue;
                }
                if lean && (pc == "G" || (pc == "id" && *sc != "rand")) {
                    continue;
                }
                jobs.case::<S>(&format!("1:{pc}x{sc}"), spec(Op::Msm, vec![(p.clone(), false)], vec![s.clone()], k_mul + 1));
            }
        }
        for n in bud.msm_sizes.iter().cloned() {
            if n < 2 {
                continue;
            }
            // mixed classes: bases id / G / random / repeated / opposite, scalars from all classes
            let mut pts = vec![];
            let mut scalars = vec![];
            for i in 0..n {
                let base = match (i + rep) % 5 {
                    0 => rnd[0].clone(),
                    1 => b(0),
                    2 => b(1),
                    3 => &order - &rnd[0],
                    _ => rand_big(&mut rng, &order),
                };
                let sc = match (i + 2 * rep) % 6 {
                    0 => rand_big(&mut rng, &order),
                    1 => b(1),
                    2 => &order - 1u8,
                    3 => b(0),
                    4 => rnd[4].clone(),
                    _ => b(2),
                };
                pts.push((base, i % 3 == 2));
                scalars.push(sc);
            }
            jobs.case::<S>(&format!("msm{n}:mixed"), spec(Op::Msm, pts.clone(), scalars.clone(), k_mul + 1));
            // accumulator hitting the identity: s·P + s·(−P)
            if n == 2 {
                let s = rnd[5].clone();
                jobs.case::<S>(
                    "msm2:cancel",
                    spec(Op::Msm, vec![(rnd[0].clone(), false), (&order - &rnd[0], false)], vec![s.clone(), s], k_mul + 1),
                );
            }
        }
    }
}

fn jub_special(ctx: &Ctx, jobs: &mut Jobs, reps: usize) {
    type S = circ::jub::S;
    let order = S::order();
    let p = S::base_modulus();
    let mut rng = ctx.rng("jub-special");
    for rep in 0..reps {
        let base = rand_big(&mut rng, &order);
        // scalars at or above the group order, as 256-bit byte strings / canonical native values
        let mut bytes_scalars = vec![
            ("0", b(0)),
            ("1", b(1)),
            ("r-1", &order - 1u8),
            ("r", order.clone()),
            ("r+1", &order + 1u8),
            ("8r", &order * 8u8),
            ("2^252", pow2(252)),
            ("2^256-1", pow2(256) - 1u8),
            ("rand256", rand_big(&mut rng, &pow2(256))),
        ];
        if rep > 0 {
            bytes_scalars = vec![("rand256", rand_big(&mut rng, &pow2(256)))];
        }
        for (sc, s) in bytes_scalars {
            for (pc, d) in [("rand", base.clone()), ("id", b(0))] {
                if pc == "id" && !["r", "2^256-1"].contains(&sc) {
                    continue;
                }
                jobs.case::<S>(&format!("{pc}x{sc}"), spec(Op::MulLeBytes, vec![(d, false)], vec![s.clone()], 13));
            }
        }
        let mut conv = vec![("p-1", &p - 1u8), ("r", order.clone()), ("2^254", pow2(254)), ("rand<p", rand_big(&mut rng, &p))];
        if rep > 0 {
            conv = vec![("rand<p", rand_big(&mut rng, &p))];
        }
        for (sc, s) in conv {
            jobs.case::<S>(&format!("randx{sc}"), spec(Op::MulConvert, vec![(base.clone(), false)], vec![s], 13));
        }
    }
}

fn foreign_special<S: Suite + 'static>(ctx: &Ctx, jobs: &mut Jobs, bits: u32, thorough: bool) {
    let order = S::order();
    let mut rng = ctx.rng(&format!("foreign-special:{}", S::NAME));
    let base = rand_big(&mut rng, &order);
    // msm_by_le_bits with bit strings at or above the group order
    let mut cases = vec![("r", order.clone(), bits as usize), ("2^bits-1", pow2(bits) - 1u8, bits as usize)];
    if thorough {
        cases.push(("r+1", &order + 1u8, bits as usize));
        cases.push(("2^(bits+3)-1", pow2(bits + 3) - 1u8, bits as usize + 3));
        cases.push(("5", b(5), 3));
    }
    for (sc, s, len) in cases {
        jobs.case::<S>(&format!("randx{sc}"), spec(Op::MsmBits(vec![len]), vec![(base.clone(), false)], vec![s], 17));
    }
    jobs.case::<S>("idx5", spec(Op::MsmBits(vec![3]), vec![(b(0), false)], vec![b(5)], 15));
    // bounded scalars (no GLV path), identity base
    let small = rand_big(&mut rng, &pow2(64));
    jobs.case::<S>("bounded64", spec(Op::MsmBounded(vec![64]), vec![(base.clone(), false)], vec![small.clone()], 16));
    jobs.case::<S>("bounded64:id", spec(Op::MsmBounded(vec![64]), vec![(b(0), false)], vec![small.clone()], 16));
}

fn tamper_jobs(ctx: &Ctx, jobs: &mut Jobs, jub_bud: &Budget, for_bud: &Budget) {
    let r = b(0x1234567);
    let q = b(0x7654321);
    // native chip
    {
        type S = circ::jub::S;
        let order = S::order();
        let cases = vec![
            ("rand", spec(Op::Assign, vec![(r.clone(), false)], vec![], 10)),
            ("rand+rand'", spec(Op::Add, vec![(r.clone(), false), (q.clone(), false)], vec![], 10)),
            ("P=-Q", spec(Op::Add, vec![(r.clone(), false), (&order - &r, false)], vec![], 10)),
            ("rand", spec(Op::Double, vec![(r.clone(), false)], vec![], 10)),
            ("rand", spec(Op::Neg, vec![(r.clone(), false)], vec![], 10)),
            ("rand", spec(Op::Coords, vec![(r.clone(), false)], vec![], 10)),
            ("randx13", spec(Op::MulConst, vec![(r.clone(), false)], vec![b(13)], 11)),
            ("1:randxrand", spec(Op::Msm, vec![(r.clone(), false)], vec![q.clone()], 12)),
            ("msm2", spec(Op::Msm, vec![(r.clone(), false), (q.clone(), false)], vec![q.clone(), r.clone()], 12)),
        ];
        for (class, s) in cases {
            jobs.tamper::<S>(ctx, class, s, jub_bud.tamper_targets, jub_bud.tamper_kinds.clone());
        }
    }
    fn foreign<S: Suite + 'static>(ctx: &Ctx, jobs: &mut Jobs, bud: &Budget, r: &BigUint, q: &BigUint) {
        let order = S::order();
        let mut cases = vec![
            ("rand", spec(Op::Assign, vec![(r.clone(), false)], vec![], 12)),
            ("rand+rand'", spec(Op::Add, vec![(r.clone(), false), (q.clone(), false)], vec![], 12)),
            ("P=Q", spec(Op::Add, vec![(r.clone(), false), (r.clone(), false)], vec![], 12)),
            ("rand", spec(Op::Double, vec![(r.clone(), false)], vec![], 12)),
        ];
        if !bud.quick {
            cases.push(("P=-Q", spec(Op::Add, vec![(r.clone(), false), (&order - r, false)], vec![], 12)));
            cases.push(("id+rand", spec(Op::Add, vec![(b(0), false), (r.clone(), false)], vec![], 12)));
            cases.push(("rand", spec(Op::Neg, vec![(r.clone(), false)], vec![], 12)));
            cases.push(("rand", spec(Op::Coords, vec![(r.clone(), false)], vec![], 12)));
            cases.push(("randx13", spec(Op::MulConst, vec![(r.clone(), false)], vec![b(13)], 14)));
        }
        for (class, s) in cases {
            jobs.tamper::<S>(ctx, class, s, bud.tamper_targets, bud.tamper_kinds.clone());
        }
    }
    foreign::<circ::secp::S>(ctx, jobs, for_bud, &r, &q);
    foreign::<circ::bls::S>(ctx, jobs, for_bud, &r, &q);
    // forged result points on every exceptional operand class of `add` / `double`
    fn forge<S: Suite + 'static>(jobs: &mut Jobs, r: &BigUint, q: &BigUint) {
        let order = S::order();
        let z = b(0);
        for (class, p1, p2) in [
            ("rand+rand'", r.clone(), q.clone()),
            ("P=Q", r.clone(), r.clone()),
            ("P=-Q", r.clone(), &order - r),
            ("id+rand", z.clone(), r.clone()),
            ("rand+id", r.clone(), z.clone()),
            ("id+id", z.clone(), z.clone()),
        ] {
            jobs.forge::<S>(class, spec(Op::Add, vec![(p1, false), (p2, false)], vec![], 12));
        }
        jobs.forge::<S>("rand", spec(Op::Double, vec![(r.clone(), false)], vec![], 12));
        jobs.forge::<S>("id", spec(Op::Double, vec![(z.clone(), false)], vec![], 12));
    }
    forge::<circ::secp::S>(jobs, &r, &q);
    forge::<circ::bls::S>(jobs, &r, &q);
}

pub fn run(ctx: &mut Ctx) {
    let _ = layout();
    let tier = ctx.tier.clone();
    let (jub_bud, for_bud) = match tier.as_str() {
        "quick" => (
            Budget { quick: true, reps: 2, msm_sizes: vec![2, 3, 8], full_scalars: true, tamper_targets: 24, tamper_kinds: vec![0, 3] },
            Budget { quick: true, reps: 1, msm_sizes: vec![2], full_scalars: false, tamper_targets: 6, tamper_kinds: vec![0] },
        ),
        "thorough" => (
            Budget { quick: false, reps: 6, msm_sizes: vec![2, 3, 4, 5, 6, 7, 8], full_scalars: true, tamper_targets: 200, tamper_kinds: vec![0, 1, 2, 3] },
            Budget { quick: false, reps: 2, msm_sizes: vec![2, 3, 4, 5, 6, 7, 8], full_scalars: true, tamper_targets: 40, tamper_kinds: vec![0, 3] },
        ),
        _ => (
            Budget { quick: false, reps: 2, msm_sizes: vec![2, 3], full_scalars: true, tamper_targets: 2000, tamper_kinds: vec![0, 1, 2, 3, 4] },
            Budget { quick: true, reps: 1, msm_sizes: vec![2], full_scalars: false, tamper_targets: 30, tamper_kinds: vec![0, 3] },
        ),
    };
    let quick = tier == "quick";
    let mut jobs = Jobs { v: vec![] };
    suite_jobs::<circ::jub::S>(ctx, &mut jobs, &jub_bud, 252);
    jub_special(ctx, &mut jobs, if quick { 1 } else { 4 });
    suite_jobs::<circ::secp::S>(ctx, &mut jobs, &for_bud, 256);
    suite_jobs::<circ::bls::S>(ctx, &mut jobs, &for_bud, 255);
    foreign_special::<circ::secp::S>(ctx, &mut jobs, 256, !quick);
    foreign_special::<circ::bls::S>(ctx, &mut jobs, 255, !quick);
    // BLS subgroup check (regression of the cofactor multiplication)
    for (class, d) in [("rand", b(0xABCDEF)), ("id", b(0)), ("G", b(1))] {
        if quick && class == "G" {
            continue;
        }
        jobs.case::<circ::bls::S>(class, spec(Op::SubgroupCheck, vec![(d, false)], vec![], 16));
    }
    // BLS12-381 G1: curve points outside the prime-order subgroup (order 3 and 11) through
    // mul_by_constant -> mul_by_u128: honest and forged runs (recorded finding)
    {
        let mut low: Vec<(u32, u64, Option<u64>)> = vec![(3, 2, None), (3, 5, Some(1)), (11, 21, Some(5))];
        if !quick {
            low.extend([(3, 3, None), (3, 4, None), (3, 17, Some(1)), (11, 2, None), (11, 11, None), (11, 37, None), (11, 42, Some(10))]);
        }
        for (ord, n, fk) in low {
            jobs.v.push(Box::new(move || crate::loworder::case(ord, n, fk)));
        }
    }
    // native point_from_coordinates on FREE coordinate cells: both must be bound (seed C06-1)
    {
        let mut rng = ctx.rng("coords-free");
        let mut cl: Vec<(&str, BigUint)> = vec![("G", b(1)), ("rand", rand_big(&mut rng, &circ::jub::S::order()))];
        if !quick {
            cl.push(("id", b(0)));
            cl.push(("r-1", circ::jub::S::order() - 1u8));
            cl.push(("rand'", rand_big(&mut rng, &circ::jub::S::order())));
        }
        for (class, d) in cl {
            let class = class.to_string();
            jobs.v.push(Box::new(move || crate::coordsbind::case(&class, d)));
        }
    }
    // map-to-curve / hash-to-curve on Jubjub: constants, exceptional inputs (computed from the
    // running constants), CPU stages, the in-circuit gadget, hash glue
    {
        jobs.v.push(Box::new(crate::htc::consts_case));
        let mut rng = ctx.rng("htc");
        let mut classes = crate::htc::input_classes();
        let nrand = match tier.as_str() { "quick" => 8, "thorough" => 80, _ => 40 };
        for i in 0..nrand {
            classes.push((format!("rand{i}"), <F as ff::Field>::random(&mut rng)));
        }
        for (class, u) in classes.iter() {
            let (c1, u1) = (class.clone(), *u);
            jobs.v.push(Box::new(move || crate::htc::cpu_case(&c1, u1)));
            // single-cell faults over the advice cells of the gadget (all of them outside quick)
            let tam = if ["exceptional0", "exceptional2", "rand0", "0"].contains(&class.as_str()) { if quick { 40 } else { 100_000 } } else { 0 };
            let (c2, u2) = (class.clone(), *u);
            let trng = ctx.rng(&format!("htc-tamper:{class}"));
            jobs.v.push(Box::new(move || crate::htc::circuit_case(&c2, u2, tam, trng)));
        }
        let glue: Vec<(String, Vec<F>)> = vec![
            ("one".into(), vec![<F as ff::Field>::ONE]),
            ("empty".into(), vec![]),
            ("rand3".into(), (0..3).map(|_| <F as ff::Field>::random(&mut rng)).collect()),
        ];
        for (i, (class, ins)) in glue.into_iter().enumerate() {
            let circuit = i == 0 || !quick;
            jobs.v.push(Box::new(move || crate::htc::glue_case(&class, ins, circuit)));
        }
    }
    tamper_jobs(ctx, &mut jobs, &jub_bud, &for_bud);
    let threads = std::env::var("H_C06_THREADS").ok().and_then(|s| s.parse().ok()).unwrap_or(8);
    ctx.count_n("jobs", jobs.v.len() as u64);
    run_jobs(ctx, jobs.v, threads);
}

pub fn probe(args: &[String]) {
    let which = args.first().map(|s| s.as_str()).unwrap_or("all");
    if which == "coordsbind" {
        for (c, d) in [("G", b(1)), ("id", b(0)), ("x", b(0x1234567))] {
            let out = crate::coordsbind::case(c, d);
            for e in out.ev {
                match e {
                    Event::Count(k, _) => println!("count {k}"),
                    Event::Case(kind, line, ans) => println!("case {kind} {line} -> {ans}"),
                    Event::Fail(k, w, d) => println!("ORACLE_FAIL {k}: {w} {d}"),
                }
            }
        }
        return;
    }
    if which == "htcfree" {
        use ff::Field;
        crate::htc::probe_free_cells(F::from(5u64));
        crate::htc::probe_free_cells(crate::htc::exceptional()[2]);
        crate::htc::probe_free_cells(F::ZERO);
        return;
    }
    if which == "htc" {
        use rand_core::SeedableRng;
        let show = |out: Out| {
            for e in out.ev {
                match e {
                    Event::Count(k, _) => println!("count {k}"),
                    Event::Case(kind, line, ans) => println!("case {kind}\n  {line}\n  -> {}", ans.chars().take(400).collect::<String>()),
                    Event::Fail(k, w, d) => println!("ORACLE_FAIL {k}: {w}\n  {d}"),
                }
            }
        };
        show(crate::htc::consts_case());
        for (class, u) in crate::htc::input_classes() {
            let t = std::time::Instant::now();
            show(crate::htc::cpu_case(&class, u));
            let tam = if class == "exceptional0" { 6 } else { 0 };
            show(crate::htc::circuit_case(&class, u, tam, rand_chacha::ChaCha8Rng::seed_from_u64(1)));
            println!("({:?})", t.elapsed());
        }
        let t = std::time::Instant::now();
        show(crate::htc::glue_case("one", vec![<F as ff::Field>::ONE], true));
        println!("({:?})", t.elapsed());
        return;
    }
    if which == "loworder" {
        for (o, n, k) in [(3u32, 2u64, None), (3, 5, Some(1u64)), (3, 3, None), (11, 21, Some(5)), (11, 37, Some(5)), (11, 42, Some(10))] {
            let t = std::time::Instant::now();
            let out = crate::loworder::case(o, n, k);
            for e in out.ev {
                match e {
                    Event::Count(k, _) => println!("count {k}"),
                    Event::Case(kind, line, ans) => println!("case {kind}\n  {line}\n  -> {ans}"),
                    Event::Fail(k, w, d) => println!("ORACLE_FAIL {k}: {w}\n  {d}"),
                }
            }
            println!("({:?})", t.elapsed());
        }
        return;
    }
    if which == "all" || which == "jub" {
        let sp = spec(Op::Add, vec![(b(5), false), (b(7), false)], vec![], 10);
        let r = circ::jub::run(&sp, vec![], None);
        println!("jub add: {:?} out={:?} exp={:?} [{}..{}] {}", r.verdict, r.outcome.result, r.expected, r.outcome.op_start, r.outcome.op_end, r.failures);
        let lay = layout();
        println!("{}", op_line::<circ::jub::S>(&sp));
        println!("{}", lay.table(r.prover.as_ref().unwrap()));
    }
    if which == "all" || which == "mulc" {
        for (name, s) in [("2^64", pow2(64)), ("2^64+5", pow2(64) + 5u8), ("12345", b(12345)), ("2^127+1", pow2(127) + 1u8)] {
            let sp = spec(Op::MulConst, vec![(b(5), false)], vec![s.clone()], 16);
            let t = std::time::Instant::now();
            let r = circ::secp::run(&sp, vec![], None);
            println!("secp mul_const {name}: {:?} ok={} {} ({:?})", r.verdict, r.outcome.result.as_ref() == Some(&r.expected), r.failures, t.elapsed());
        }
        let big: BigUint = pow2(200) + 12345u32;
        for (pname, d) in [("id", b(0)), ("5G", b(5))] {
            let sp = spec(Op::MulConst, vec![(d, false)], vec![big.clone()], 17);
            let t = std::time::Instant::now();
            let r = circ::secp::run(&sp, vec![], None);
            println!("secp mul_const 2^200+12345 * {pname}: {:?} ok={} {} ({:?})", r.verdict, r.outcome.result.as_ref() == Some(&r.expected), r.failures, t.elapsed());
        }
    }
    if which == "all" || which == "subgroup" {
        let sp = spec(Op::SubgroupCheck, vec![(b(5), false)], vec![], 16);
        let t = std::time::Instant::now();
        let r = circ::bls::run(&sp, vec![], None);
        println!("bls subgroup_check(5G): {:?} {} ({:?})", r.verdict, r.failures, t.elapsed());
    }
}
