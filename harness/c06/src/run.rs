//! Correspondence and oracle runs of property C06.
use mzkh::Ctx;
use num_bigint::BigUint;

use crate::circ::{self, Op, Spec};

fn b(n: u64) -> BigUint {
    BigUint::from(n)
}

pub fn probe(args: &[String]) {
    let which = args.first().map(|s| s.as_str()).unwrap_or("all");
    if which == "all" || which == "jub" {
        let spec = Spec { op: Op::Add, pts: vec![(b(5), false), (b(7), false)], scalars: vec![], bind_pi: false, k: 10 };
        let r = circ::jub::run(&spec, vec![], None);
        println!("jub add: {:?} out={:?} exp={:?} [{}..{}] {}", r.verdict, r.outcome.result, r.expected, r.outcome.op_start, r.outcome.op_end, r.failures);
        let spec = Spec { op: Op::Msm, pts: vec![(b(5), false)], scalars: vec![b(3)], bind_pi: true, k: 11 };
        let r = circ::jub::run(&spec, vec![], None);
        println!("jub msm pi: {:?} out={:?} exp={:?} {}", r.verdict, r.outcome.result, r.expected, r.failures);
    }
    if which == "all" || which == "mulc" {
        // candidate defect: mul_by_constant with a scalar in [2^64, 2^128)
        for (name, s) in [("2^64", BigUint::from(1u8) << 64), ("2^64+5", (BigUint::from(1u8) << 64) + 5u8), ("12345", b(12345)), ("2^127+1", (BigUint::from(1u8) << 127) + 1u8)] {
            let spec = Spec { op: Op::MulConst, pts: vec![(b(5), false)], scalars: vec![s.clone()], bind_pi: false, k: 16 };
            let t = std::time::Instant::now();
            let r = circ::secp::run(&spec, vec![], None);
            println!("secp mul_const {name}: {:?} ok={} {} ({:?})", r.verdict, r.outcome.result.as_ref() == Some(&r.expected), r.failures, t.elapsed());
        }
        let big: BigUint = (BigUint::from(1u8) << 200) + 12345u32;
        for (pname, d) in [("id", b(0)), ("5G", b(5))] {
            let spec = Spec { op: Op::MulConst, pts: vec![(d, false)], scalars: vec![big.clone()], bind_pi: false, k: 17 };
            let t = std::time::Instant::now();
            let r = circ::secp::run(&spec, vec![], None);
            println!("secp mul_const 2^200+12345 * {pname}: {:?} ok={} {} ({:?})", r.verdict, r.outcome.result.as_ref() == Some(&r.expected), r.failures, t.elapsed());
        }
    }
    if which == "all" || which == "subgroup" {
        let spec = Spec { op: Op::SubgroupCheck, pts: vec![(b(5), false)], scalars: vec![], bind_pi: false, k: 16 };
        let t = std::time::Instant::now();
        let r = circ::bls::run(&spec, vec![], None);
        println!("bls subgroup_check(5G): {:?} {} ({:?})", r.verdict, r.failures, t.elapsed());
    }
}

pub fn run(_ctx: &mut Ctx) {}
