//! Correspondence harness of property C06 (stub).
use mzkh::Ctx;

fn main() {
    let ctx = Ctx::from_args("C06");
    ctx.finish();
}
