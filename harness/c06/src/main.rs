//! Correspondence harness of property C06 (elliptic-curve gadgets).
//!
//! * `h-c06 --dump-gates FILE`: runs the REAL `EccChip::configure` / `ForeignEccChip::configure`
//!   and writes the gate polynomials as expression ASTs (JSON) for `translators/c06_gates.py`.
//! * `h-c06 --probe`: prints a few exploratory runs (development aid).
//! * `h-c06 --tier T --seed S --out DIR`: correspondence + oracle run (see `run.rs`).
mod circ;
mod coordsbind;
mod gates;
mod htc;
mod loworder;
mod run;

fn main() {
    let args: Vec<String> = std::env::args().collect();
    if args.len() >= 3 && args[1] == "--dump-gates" {
        gates::dump(&args[2]);
        return;
    }
    if args.len() >= 2 && args[1] == "--probe" {
        mzkh::quiet_panics();
        run::probe(&args[2..]);
        return;
    }
    let mut ctx = mzkh::Ctx::from_args("C06");
    run::run(&mut ctx);
    ctx.finish();
}
