//! Byte hashes: SHA-256, SHA-512, RIPEMD-160 chips (stand-alone), var-len SHA-256 gadget, and
//! SHA-256 / SHA-512 / SHA3-256 / Keccak-256 / BLAKE2b through `ZkStdLib`.
use std::{cell::RefCell, rc::Rc};

use ff::Field;
use midnight_circuits::{
    hash::{ripemd160::RipeMD160Chip, sha256::{Sha256Chip, VarLenSha256Gadget}, sha512::Sha512Chip},
    instructions::{hash::HashCPU, AssignmentInstructions},
    types::{AssignedByte, InnerValue},
};
use midnight_proofs::{
    circuit::{Layouter, Value},
    plonk::Error,
};
use midnight_zk_stdlib::{MidnightCircuit, Relation, ZkStdLib, ZkStdLibArch};
use mzkh::{Ctx};
use rand::{Rng, RngCore};
use serde_json::json;
use sha2::Digest;

use crate::circuits::{assigned_cells, cell_value, mock_run, tamper_accepts, HashCircuit, Mock, VarHashCircuit, F};

pub fn hex(b: &[u8]) -> String {
    if b.is_empty() {
        "-".into()
    } else {
        b.iter().map(|x| format!("{x:02x}")).collect()
    }
}

/// Message content classes.
fn gen_msg(rng: &mut impl RngCore, len: usize, mode: usize) -> Vec<u8> {
    match mode % 5 {
        0 => (0..len).map(|_| rng.gen()).collect(),
        1 => vec![0u8; len],
        2 => vec![0xffu8; len],
        3 => vec![0x80u8; len],
        _ => (0..len).map(|i| i as u8).collect(),
    }
}

/// Boundary lengths for a hash with block size `b` and length field `l` bytes.
pub fn boundary_lengths(b: usize, l: usize, blocks: usize) -> Vec<usize> {
    let mut v = vec![0, 1, 2, 3];
    for k in 1..=blocks {
        let base = k * b;
        for d in [l + 2, l + 1, l, l - 1] {
            // k*b - l - 1 is the last length that fits the padding in block k
            if base >= d {
                v.push(base - d);
            }
        }
        v.extend([base - 2, base - 1, base, base + 1]);
    }
    v.sort();
    v.dedup();
    v
}

#[derive(Clone, Copy, PartialEq, Eq, Debug)]
pub enum H {
    Sha256,
    Sha512,
    Rmd160,
}

impl H {
    fn name(&self) -> &'static str {
        match self {
            H::Sha256 => "sha256",
            H::Sha512 => "sha512",
            H::Rmd160 => "rmd160",
        }
    }
    /// Off-circuit function of the chip (`HashCPU`).
    fn cpu(&self, m: &[u8]) -> Vec<u8> {
        match self {
            H::Sha256 => <Sha256Chip<F> as HashCPU<u8, [u8; 32]>>::hash(m).to_vec(),
            H::Sha512 => <Sha512Chip<F> as HashCPU<u8, [u8; 64]>>::hash(m).to_vec(),
            H::Rmd160 => <RipeMD160Chip<F> as HashCPU<u8, [u8; 20]>>::hash(m).to_vec(),
        }
    }
    /// RustCrypto, called directly (second oracle).
    fn reference(&self, m: &[u8]) -> Vec<u8> {
        match self {
            H::Sha256 => sha2::Sha256::digest(m).to_vec(),
            H::Sha512 => sha2::Sha512::digest(m).to_vec(),
            H::Rmd160 => ripemd::Ripemd160::digest(m).to_vec(),
        }
    }
    fn k0(&self) -> u32 {
        match self {
            H::Sha256 => 13,
            H::Sha512 => 14,
            H::Rmd160 => 13,
        }
    }
    /// In-circuit digest through the stand-alone chip; `(digest, accepted)`.
    fn circuit(&self, m: &[u8]) -> Result<(Vec<u8>, bool, String), String> {
        fn go<Out: InnerValue, C>(m: &[u8], k0: u32, conv: impl Fn(Out::Element) -> Vec<u8>) -> Result<(Vec<u8>, bool, String), String>
        where
            C: midnight_circuits::instructions::HashInstructions<F, AssignedByte<F>, Out> + midnight_circuits::testing_utils::FromScratch<F>,
        {
            let circuit = HashCircuit::<AssignedByte<F>, Out, C>::new(m.to_vec());
            match mock_run(&circuit, k0) {
                Mock::Ran { ok, failures, .. } => {
                    let d = circuit.out.borrow_mut().take().ok_or("no digest value".to_string())?;
                    Ok((conv(d), ok, failures))
                }
                Mock::Failed(e) => Err(e),
            }
        }
        match self {
            H::Sha256 => go::<[AssignedByte<F>; 32], Sha256Chip<F>>(m, self.k0(), |d| d.to_vec()),
            H::Sha512 => go::<[AssignedByte<F>; 64], Sha512Chip<F>>(m, self.k0(), |d| d.to_vec()),
            H::Rmd160 => go::<[AssignedByte<F>; 20], RipeMD160Chip<F>>(m, self.k0(), |d| d.to_vec()),
        }
    }
}

fn check_digest(ctx: &mut Ctx, what: &str, name: &str, m: &[u8], got: &[u8], want: &[u8]) {
    if got != want {
        ctx.oracle_fail(
            &format!("{name}:{what}!=reference:len={}", m.len()),
            &format!("{name}: {what} digest differs from the reference function"),
            json!({"message": hex(m), "got": hex(got), "reference": hex(want)}),
        );
    }
}

fn run_fixed(ctx: &mut Ctx, h: H) {
    let mut rng = ctx.rng(&format!("bytes-{}", h.name()));
    let (b, l) = if h == H::Sha512 { (128, 16) } else { (64, 8) };
    // off circuit: every length up to 2 blocks + boundary of the third (quick), 4 blocks (thorough)
    let max = if ctx.quick() { 2 * b + 2 } else { 4 * b + 2 };
    for len in 0..=max {
        for mode in 0..(if ctx.quick() { 2 } else { 5 }) {
            let m = gen_msg(&mut rng, len, mode);
            let d = h.cpu(&m);
            ctx.case(&format!("{}:cpu", h.name()), len > 0, &format!("{} {}", h.name(), hex(&m)), &hex(&d));
            check_digest(ctx, "off-circuit", h.name(), &m, &d, &h.reference(&m));
        }
    }
    // in circuit
    let lens: Vec<usize> = if ctx.quick() {
        match h {
            H::Sha256 => boundary_lengths(b, l, 2),
            H::Sha512 => vec![0, 1, 110, 111, 112, 113, 119, 120, 127, 128, 129, 239, 240],
            H::Rmd160 => boundary_lengths(b, l, 1).into_iter().chain([119, 120, 128]).collect(),
        }
    } else {
        boundary_lengths(b, l, 3)
    };
    for (i, &len) in lens.iter().enumerate() {
        let reps = if ctx.quick() { 1 } else { 2 };
        for rep in 0..reps {
            let m = gen_msg(&mut rng, len, if rep == 0 { 0 } else { 1 + i });
            match h.circuit(&m) {
                Ok((d, ok, failures)) => {
                    ctx.count(&format!("mock:{}", h.name()));
                    ctx.case(&format!("{}:circuit", h.name()), len > 0, &format!("{} {}", h.name(), hex(&m)), &hex(&d));
                    if !ok {
                        ctx.oracle_fail(&format!("{}:honest-rejected:len={len}", h.name()), &format!("MockProver rejects the honest {} circuit", h.name()), json!({"message": hex(&m), "failures": failures}));
                    }
                    check_digest(ctx, "in-circuit", h.name(), &m, &d, &h.reference(&m));
                }
                Err(e) => ctx.oracle_fail(&format!("{}:synthesis-failed:len={len}", h.name()), &format!("{} circuit cannot be synthesised", h.name()), json!({"message": hex(&m), "error": e})),
            }
        }
    }
}

/// Var-len SHA-256: payload of `len` bytes in a buffer of `M`, unused cells = `filler`.
fn varlen_case<const M: usize>(ctx: &mut Ctx, data: &[u8], filler: u8) {
    let circuit = VarHashCircuit::<AssignedByte<F>, [AssignedByte<F>; 32], VarLenSha256Gadget<F>, M, 64>::new(data.to_vec(), filler);
    let key = format!("M={M},len={},filler={filler}", data.len());
    match mock_run(&circuit, 14) {
        Mock::Ran { ok, failures, .. } => {
            ctx.count("mock:sha256-varlen");
            let Some(d) = circuit.out.borrow_mut().take() else { return };
            // the request is the whole buffer (payload where `get_lims` puts it, filler elsewhere) and
            // the length: the model runs its mirror of the selection code of sha256_varlen.rs
            let lims = midnight_circuits::vec::get_lims::<M, 64>(data.len());
            let mut buffer = vec![filler; M];
            buffer[lims].copy_from_slice(data);
            ctx.case(
                &format!("sha256:varlen:M{M}:{}", if filler == 0 { "zero-filler" } else { "adversarial-filler" }),
                true,
                &format!("sha256varlen {M} {} {}", data.len(), hex(&buffer)),
                &hex(&d),
            );
            // the buffer layout itself (`get_lims` of the real code) against the model's `byteBuffer`, the
            // function the general theorems `sha256_varlen_select_spec` / `…_digest_spec` are stated with
            ctx.case(&format!("sha256:varlen:buffer:M{M}"), true, &format!("sha256buffer {M} {filler:02x} {}", hex(data)), &hex(&buffer));
            ctx.count(&format!("sha256:varlen:len%64={}", match data.len() % 64 { 0 => "0", 1..=54 => "1-54", 55 => "55", 56 => "56", 57..=62 => "57-62", _ => "63" }));
            if !ok {
                ctx.oracle_fail(&format!("sha256:varlen:honest-rejected:{key}"), "MockProver rejects the honest var-len SHA-256 circuit", json!({"data": hex(data), "filler": filler, "failures": failures}));
                return;
            }
            let want = sha2::Sha256::digest(data).to_vec();
            if d.to_vec() != want {
                ctx.oracle_fail(
                    &format!("sha256:varlen-digest!=hash-of-payload:len%64={}", data.len() % 64),
                    "var-len SHA-256: the accepted in-circuit digest differs from SHA-256 of the payload",
                    json!({"MAX_LEN": M, "len": data.len(), "data": hex(data), "filler": filler, "circuit_digest": hex(&d), "reference": hex(&want)}),
                );
            }
        }
        Mock::Failed(e) => ctx.oracle_fail(&format!("sha256:varlen:synthesis-failed:{key}"), "var-len SHA-256 circuit cannot be synthesised", json!({"data": hex(data), "error": e})),
    }
}

fn run_varlen(ctx: &mut Ctx) {
    let mut rng = ctx.rng("sha256-varlen");
    fn one<const M: usize>(ctx: &mut Ctx, rng: &mut impl RngCore, len: usize, filler: u8) {
        let data: Vec<u8> = (0..len).map(|_| rng.gen()).collect();
        varlen_case::<M>(ctx, &data, filler);
    }
    if ctx.quick() {
        for (i, len) in [0usize, 1, 2, 54, 55, 56, 57, 62, 63, 64, 65, 66, 118, 119, 120, 121, 126, 127, 128].into_iter().enumerate() {
            one::<128>(ctx, &mut rng, len, [0xa5u8, 0x80, 0xff, 0x00, 0x01][i % 5]);
        }
        for (len, f) in [(0usize, 0xffu8), (1, 0x80), (55, 0x80), (56, 0xa5), (63, 0x80), (64, 0x01)] {
            one::<64>(ctx, &mut rng, len, f);
        }
    } else {
        for len in 0..=64 {
            one::<64>(ctx, &mut rng, len, if len % 2 == 0 { 0x80 } else { 0xff });
        }
        for len in 0..=128 {
            one::<128>(ctx, &mut rng, len, [0x80u8, 0xa5, 0x00][len % 3]);
        }
        for len in [0usize, 1, 55, 56, 63, 64, 65, 119, 120, 127, 128, 129, 183, 184, 191, 192] {
            one::<192>(ctx, &mut rng, len, 0xff);
        }
    }
}

/// A relation hashing its witness bytes with one of the `ZkStdLib` hash entry points and
/// remembering the digest value.
#[derive(Clone)]
struct StdHash {
    which: &'static str,
    /// `ZkStdLibArch` flag set for the run (`""` = the flag named like the entry point); the
    /// Keccak/SHA3 chip is shared: `sha3_256` must also work when only `keccak_256` is enabled and
    /// vice versa
    arch: &'static str,
    out: Rc<RefCell<Option<Vec<u8>>>>,
}

impl Relation for StdHash {
    type Instance = ();
    type Witness = Vec<u8>;

    fn format_instance(_: &Self::Instance) -> Result<Vec<F>, Error> {
        Ok(vec![])
    }

    fn circuit(&self, std_lib: &ZkStdLib, layouter: &mut impl Layouter<F>, _instance: Value<()>, witness: Value<Vec<u8>>) -> Result<(), Error> {
        // the length is public structure: take it from the (known) witness
        let mut bytes: Vec<u8> = vec![];
        witness.as_ref().map(|w| bytes = w.clone());
        let vals: Vec<Value<u8>> = bytes.iter().map(|b| Value::known(*b)).collect();
        let input: Vec<AssignedByte<F>> = std_lib.assign_many(layouter, &vals)?;
        let digest: Vec<AssignedByte<F>> = match self.which {
            "sha256" => std_lib.sha2_256(layouter, &input)?.to_vec(),
            "sha512" => std_lib.sha2_512(layouter, &input)?.to_vec(),
            "sha3_256" => std_lib.sha3_256(layouter, &input)?.to_vec(),
            "keccak_256" => std_lib.keccak_256(layouter, &input)?.to_vec(),
            "blake2b_256" => std_lib.blake2b_256(layouter, &input)?.to_vec(),
            "blake2b_512" => std_lib.blake2b_512(layouter, &input)?.to_vec(),
            _ => unreachable!(),
        };
        let mut out = vec![];
        for b in &digest {
            b.value().map(|v| out.push(v));
        }
        if out.len() == digest.len() {
            *self.out.borrow_mut() = Some(out);
        }
        Ok(())
    }

    fn used_chips(&self) -> ZkStdLibArch {
        let flag = if self.arch.is_empty() { self.which } else { self.arch };
        // every flag off except the one under test (spelled out: independent of what `default()` enables)
        ZkStdLibArch {
            jubjub: false,
            poseidon: false,
            sha2_256: flag == "sha256",
            sha2_512: flag == "sha512",
            sha3_256: flag == "sha3_256",
            keccak_256: flag == "keccak_256",
            blake2b: flag.starts_with("blake2b"),
            secp256k1: false,
            bls12_381: false,
            base64: false,
            automaton: false,
            ..ZkStdLibArch::default()
        }
    }

    fn write_relation<W: std::io::Write>(&self, _w: &mut W) -> std::io::Result<()> {
        Ok(())
    }
    fn read_relation<R: std::io::Read>(_r: &mut R) -> std::io::Result<Self> {
        unimplemented!()
    }
}

/// `ZkStdLib::poseidon` alone in a relation (only the `poseidon` flag set).
#[derive(Clone)]
struct StdPoseidon {
    out: Rc<RefCell<Option<F>>>,
}

impl Relation for StdPoseidon {
    type Instance = ();
    type Witness = Vec<F>;

    fn format_instance(_: &Self::Instance) -> Result<Vec<F>, Error> {
        Ok(vec![])
    }

    fn circuit(&self, std_lib: &ZkStdLib, layouter: &mut impl Layouter<F>, _instance: Value<()>, witness: Value<Vec<F>>) -> Result<(), Error> {
        let mut xs: Vec<F> = vec![];
        witness.as_ref().map(|w| xs = w.clone());
        let vals: Vec<Value<F>> = xs.iter().map(|x| Value::known(*x)).collect();
        let input: Vec<midnight_circuits::types::AssignedNative<F>> = std_lib.assign_many(layouter, &vals)?;
        let d = std_lib.poseidon(layouter, &input)?;
        d.value().map(|v| *self.out.borrow_mut() = Some(*v));
        Ok(())
    }

    fn used_chips(&self) -> ZkStdLibArch {
        ZkStdLibArch {
            jubjub: false,
            poseidon: true,
            sha2_256: false,
            sha2_512: false,
            sha3_256: false,
            keccak_256: false,
            blake2b: false,
            secp256k1: false,
            bls12_381: false,
            base64: false,
            automaton: false,
            ..ZkStdLibArch::default()
        }
    }

    fn write_relation<W: std::io::Write>(&self, _w: &mut W) -> std::io::Result<()> {
        Ok(())
    }
    fn read_relation<R: std::io::Read>(_r: &mut R) -> std::io::Result<Self> {
        unimplemented!()
    }
}

/// `ZkStdLib::poseidon` driven alone through `MidnightCircuit`; the digest is compared with the
/// Lean model (`hash circuit …`) and the off-circuit `PoseidonChip::hash`.
fn run_stdlib_poseidon(ctx: &mut Ctx) {
    use midnight_circuits::hash::poseidon::PoseidonChip;
    let mut rng = ctx.rng("stdlib-poseidon");
    let lens: Vec<usize> = if ctx.quick() { vec![1, 2, 3] } else { vec![0, 1, 2, 3, 4, 5, 8] };
    for len in lens {
        let xs: Vec<F> = (0..len).map(|_| F::random(&mut rng)).collect();
        let rel = StdPoseidon { out: Rc::new(RefCell::new(None)) };
        let circuit = MidnightCircuit::new(&rel, Value::known(()), Value::known(xs.clone()), Some(8));
        let hexes = mzkh::join(&xs.iter().map(mzkh::fe_hex).collect::<Vec<_>>());
        match mock_run(&circuit, 10) {
            Mock::Ran { ok, failures, .. } => {
                ctx.count("mock:stdlib:poseidon");
                let Some(d) = rel.out.borrow_mut().take() else { continue };
                ctx.case("poseidon:stdlib", true, &format!("hash circuit {hexes}"), &mzkh::fe_hex(&d));
                if !ok {
                    ctx.oracle_fail(&format!("stdlib:poseidon:honest-rejected:len={len}"), "MockProver rejects the honest ZkStdLib poseidon circuit", json!({"inputs": hexes, "failures": failures}));
                }
                let cpu = <PoseidonChip<F> as HashCPU<F, F>>::hash(&xs);
                if cpu != d {
                    ctx.oracle_fail(&format!("stdlib:poseidon:in-circuit!=cpu:len={len}"), "ZkStdLib::poseidon digest differs from the off-circuit Poseidon hash", json!({"inputs": hexes, "circuit": mzkh::fe_hex(&d), "cpu": mzkh::fe_hex(&cpu)}));
                }
            }
            Mock::Failed(e) => ctx.oracle_fail(&format!("stdlib:poseidon:synthesis-failed:len={len}"), "ZkStdLib poseidon circuit cannot be synthesised", json!({"inputs": hexes, "error": e})),
        }
    }
}

fn std_reference(which: &str, m: &[u8]) -> Vec<u8> {
    use sha3::Digest as _;
    match which {
        "sha256" => sha2::Sha256::digest(m).to_vec(),
        "sha512" => sha2::Sha512::digest(m).to_vec(),
        "sha3_256" => sha3::Sha3_256::digest(m).to_vec(),
        "keccak_256" => sha3::Keccak256::digest(m).to_vec(),
        "blake2b_256" => blake2b_simd::Params::new().hash_length(32).hash(m).as_bytes().to_vec(),
        "blake2b_512" => blake2b_simd::Params::new().hash_length(64).hash(m).as_bytes().to_vec(),
        _ => unreachable!(),
    }
}

fn run_stdlib(ctx: &mut Ctx) {
    let mut rng = ctx.rng("stdlib-hashes");
    // every byte-hash entry point ALONE in a relation (only its own flag set: a table-loading flag
    // forgotten by the entry point shows as a rejected honest circuit), plus the two entry points of
    // the shared Keccak/SHA3 chip under the other one's flag
    let plan: Vec<(&'static str, &'static str, u32, Vec<usize>)> = if ctx.quick() {
        vec![
            ("sha256", "", 13, vec![3]),
            ("sha512", "", 14, vec![5]),
            ("sha3_256", "", 12, vec![0, 135, 136]),
            ("keccak_256", "", 12, vec![1, 136]),
            ("sha3_256", "keccak_256", 12, vec![2]),
            ("keccak_256", "sha3_256", 12, vec![3]),
            ("blake2b_256", "", 12, vec![0, 128]),
            ("blake2b_512", "", 12, vec![129]),
        ]
    } else {
        vec![
            ("sha256", "", 13, vec![0, 55, 56, 64]),
            ("sha512", "", 14, vec![0, 111, 112, 128]),
            ("sha3_256", "", 12, vec![0, 1, 2, 134, 135, 136, 137, 271, 272, 273]),
            ("keccak_256", "", 12, vec![0, 1, 2, 134, 135, 136, 137, 271, 272, 273]),
            ("sha3_256", "keccak_256", 12, vec![0, 135, 136]),
            ("keccak_256", "sha3_256", 12, vec![0, 135, 136]),
            ("blake2b_256", "", 12, vec![0, 1, 2, 127, 128, 129, 255, 256, 257]),
            ("blake2b_512", "", 12, vec![0, 1, 2, 127, 128, 129, 255, 256, 257]),
        ]
    };
    for (which, arch, k0, lens) in plan {
        for len in lens {
            let m = gen_msg(&mut rng, len, 0);
            let rel = StdHash { which, arch, out: Rc::new(RefCell::new(None)) };
            let circuit = MidnightCircuit::new(&rel, Value::known(()), Value::known(m.clone()), Some(8));
            match mock_run(&circuit, k0) {
                Mock::Ran { ok, failures, .. } => {
                    ctx.count(&format!("mock:stdlib:{which}{}", if arch.is_empty() { String::new() } else { format!("@{arch}") }));
                    let Some(d) = rel.out.borrow_mut().take() else { continue };
                    let want = std_reference(which, &m);
                    // SHA-2 through the library also feeds the Lean reference; the third-party
                    // hashes are compared with RustCrypto / blake2b_simd only (test-level)
                    if which == "sha256" || which == "sha512" {
                        ctx.case(&format!("{which}:stdlib"), true, &format!("{which} {}", hex(&m)), &hex(&d));
                    } else {
                        ctx.count(&format!("test-level:{which}:len={len}"));
                    }
                    if !ok {
                        ctx.oracle_fail(&format!("stdlib:{which}:honest-rejected:len={len}"), &format!("MockProver rejects the honest ZkStdLib {which} circuit"), json!({"message": hex(&m), "failures": failures}));
                    }
                    check_digest(ctx, "ZkStdLib in-circuit", which, &m, &d, &want);
                }
                Mock::Failed(e) => ctx.oracle_fail(&format!("stdlib:{which}:synthesis-failed:len={len}"), &format!("ZkStdLib {which} circuit cannot be synthesised"), json!({"message": hex(&m), "error": e})),
            }
        }
    }
}

/// Table-level tamper sweep (H2) on the SHA-256 chip: sampled assigned advice cells replaced by
/// other values must be rejected.
fn run_tamper(ctx: &mut Ctx) {
    let mut rng = ctx.rng("sha256-tamper");
    let m = gen_msg(&mut rng, 5, 0);
    let circuit = HashCircuit::<AssignedByte<F>, [AssignedByte<F>; 32], Sha256Chip<F>>::new(m.clone());
    let Mock::Ran { mut prover, ok: true, .. } = mock_run(&circuit, 13) else { return };
    let cells = assigned_cells(&prover);
    ctx.set_extra("sha256_assigned_advice_cells", json!(cells.len()));
    let n = if ctx.quick() { 250 } else { 4000 };
    for _ in 0..n {
        let (c, r) = cells[rng.gen_range(0..cells.len())];
        let v = cell_value(&prover, c, r).unwrap();
        let forged = match rng.gen_range(0..4) {
            0 => v + F::ONE,
            1 => v - F::ONE,
            2 => v + F::from(1u64 << 32),
            _ => F::random(&mut rng),
        };
        if forged == v {
            continue;
        }
        ctx.count("tamper:sha256");
        if tamper_accepts(&mut prover, &[(c, r, forged)], 2) {
            ctx.oracle_fail(
                &format!("sha256:tamper-accepted:col={c}"),
                "SHA-256 circuit accepts a modified advice cell (unconstrained intermediate value)",
                json!({"message": hex(&m), "column": c, "row": r, "honest": mzkh::fe_hex(&v), "forged": mzkh::fe_hex(&forged)}),
            );
        }
    }
}

pub fn run(ctx: &mut Ctx) {
    run_fixed(ctx, H::Sha256);
    run_fixed(ctx, H::Sha512);
    run_fixed(ctx, H::Rmd160);
    run_varlen(ctx);
    run_stdlib(ctx);
    run_stdlib_poseidon(ctx);
    run_tamper(ctx);
}
