//! SHA-256 chip wiring: (1) dump of the REAL constraint system of `Sha256Chip::configure` (gate
//! polynomials by gate name, the two plain-spreaded lookups, the column layout) for the
//! translator `translators/c07_shagates.py`; (2) the region-relative synthesis trace of the real
//! chip (selectors, tag cells, advice cells, copy constraints with canonical source names), one
//! line per chip region, compared with the Lean emitter `MidnightZK.C07.Chip.emit`; (3) the rows
//! of the loaded plain-spreaded table.
use std::collections::HashMap;

use ff::PrimeField;
use midnight_circuits::{
    hash::{sha256::Sha256Chip, sha512::Sha512Chip},
    types::AssignedByte,
};
use midnight_proofs::plonk::{Circuit, ConstraintSystem, Expression, FloorPlanner};
use mzkh::{fe_hex, Ctx};
use serde_json::{json, Value};

use crate::{
    circuits::{HashCircuit, F},
    rec::{CellRef, Ev, Rec},
};

type Sha256Circuit = HashCircuit<AssignedByte<F>, [AssignedByte<F>; 32], Sha256Chip<F>>;
type Sha512Circuit = HashCircuit<AssignedByte<F>, [AssignedByte<F>; 64], Sha512Chip<F>>;

/// Gate names of `Sha512Chip::configure`; the short names are the roles shared with SHA-256.
pub const SHA512_GATES: [(&str, &str); 11] = [
    ("Maj(A, B, C)", "maj"),
    ("half Ch(E, F, G)", "halfch"),
    ("Σ₀(A)", "Sig0"),
    ("Σ₁(E)", "Sig1"),
    ("σ₀(W)", "sig0"),
    ("σ₁(W)", "sig1"),
    ("13x4-12 decomposition", "d11"),
    ("13-12-5-6-13-13-2 decomposition", "dA"),
    ("13-10-13-10-4-13-1 decomposition", "dE"),
    ("3-13x3-3-11-1-1-5-1 decomposition", "dW"),
    ("add mod 2^64", "add"),
];

/// Region names of `sha512_chip.rs`.
pub const SHA512_REGIONS: [(&str, &str); 9] = [
    ("Maj(A, B, C)", "maj"),
    ("Ch(E, F, G)", "ch"),
    ("Σ₀(A)", "Sig0"),
    ("Σ₁(E)", "Sig1"),
    ("σ₀(W)", "sig0"),
    ("σ₁(W)", "sig1"),
    ("decompose A in 13-12-5-6-13-13-2 limbs", "prepA"),
    ("decompose E in 13-10-13-10-4-13-1 limbs", "prepE"),
    ("prepare message word", "prepW"),
];

/// Gate names of `Sha256Chip::configure` and the short names used in the trace lines.
pub const SHA256_GATES: [(&str, &str); 11] = [
    ("Maj(A, B, C)", "maj"),
    ("half Ch(E, F, G)", "halfch"),
    ("Σ₀(A)", "Sig0"),
    ("Σ₁(E)", "Sig1"),
    ("σ₀(W)", "sig0"),
    ("σ₁(W)", "sig1"),
    ("11-11-10 decomposition", "d11"),
    ("10-9-11-2 decomposition", "dA"),
    ("7-12-2-5-6 decomposition", "dE"),
    ("12-1x3-7-3-4-3 decomposition", "dW"),
    ("add mod 2^32", "add"),
];

/// Region names of `sha256_chip.rs` and the short kinds used in the trace lines.
pub const SHA256_REGIONS: [(&str, &str); 9] = [
    ("Maj(A, B, C)", "maj"),
    ("Ch(E, F, G)", "ch"),
    ("Σ₀(A)", "Sig0"),
    ("Σ₁(E)", "Sig1"),
    ("σ₀(W)", "sig0"),
    ("σ₁(W)", "sig1"),
    ("decompose A in 10-9-11-2", "prepA"),
    ("decompose E in 7-12-2-5-6", "prepE"),
    ("prepare message word", "prepW"),
];

pub fn expr_json(e: &Expression<F>) -> Value {
    match e {
        Expression::Constant(c) => json!({"t": "const", "v": fe_hex(c)}),
        Expression::Selector(s) => json!({"t": "sel", "i": s.index(), "simple": s.is_simple()}),
        Expression::Fixed(q) => json!({"t": "fixed", "c": q.column_index(), "r": q.rotation().0}),
        Expression::Advice(q) => json!({"t": "adv", "c": q.column_index(), "r": q.rotation().0}),
        Expression::Instance(q) => json!({"t": "inst", "c": q.column_index(), "r": q.rotation().0}),
        Expression::Challenge(c) => json!({"t": "chal", "i": c.index()}),
        Expression::Negated(a) => json!({"t": "neg", "a": expr_json(a)}),
        Expression::Sum(a, b) => json!({"t": "sum", "a": expr_json(a), "b": expr_json(b)}),
        Expression::Product(a, b) => json!({"t": "prod", "a": expr_json(a), "b": expr_json(b)}),
        Expression::Scaled(a, c) => json!({"t": "scaled", "a": expr_json(a), "v": fe_hex(c)}),
    }
}

pub fn find_selector(e: &Expression<F>) -> Option<usize> {
    match e {
        Expression::Selector(s) => Some(s.index()),
        Expression::Negated(a) | Expression::Scaled(a, _) => find_selector(a),
        Expression::Sum(a, b) | Expression::Product(a, b) => find_selector(a).or_else(|| find_selector(b)),
        _ => None,
    }
}

fn configured(sha512: bool) -> ConstraintSystem<F> {
    let mut cs = ConstraintSystem::<F>::default();
    if sha512 {
        let _ = <Sha512Circuit as Circuit<F>>::configure(&mut cs);
    } else {
        let _ = <Sha256Circuit as Circuit<F>>::configure(&mut cs);
    }
    cs
}

/// `h-c07 --dump-sha-gates FILE` (SHA-256 chip) / `h-c07 --dump-sha512-gates FILE` (SHA-512 chip).
pub fn dump_gates(path: &str, sha512: bool) {
    let cs = configured(sha512);
    let names: &[(&str, &str)] = if sha512 { &SHA512_GATES } else { &SHA256_GATES };
    let gates: Vec<Value> = cs
        .gates()
        .iter()
        .filter(|g| names.iter().any(|(n, _)| *n == g.name()))
        .map(|g| {
            json!({
                "name": g.name(),
                "short": names.iter().find(|(n, _)| *n == g.name()).unwrap().1,
                "polys": g.polynomials().iter().map(expr_json).collect::<Vec<_>>(),
            })
        })
        .collect();
    let lookups: Vec<Value> = cs
        .lookups()
        .iter()
        .filter(|l| l.name() == "plain-spreaded lookup")
        .map(|l| {
            json!({
                "inputs": l.input_expressions().iter().map(expr_json).collect::<Vec<_>>(),
                "table": l.table_expressions().iter().map(expr_json).collect::<Vec<_>>(),
            })
        })
        .collect();
    let out = json!({
        "modulus": F::MODULUS.to_string(),
        "num_advice": cs.num_advice_columns(),
        "num_fixed": cs.num_fixed_columns(),
        "gates": gates,
        "lookups": lookups,
    });
    std::fs::write(path, serde_json::to_vec_pretty(&out).unwrap()).unwrap();
}

/// selector index -> short name (`lookup` for the complex selector of the two lookups).
fn selector_names(cs: &ConstraintSystem<F>, gates: &[(&str, &str)]) -> HashMap<usize, String> {
    let mut m = HashMap::new();
    for g in cs.gates() {
        if let Some((_, short)) = gates.iter().find(|(n, _)| *n == g.name()) {
            if let Some(s) = g.polynomials().iter().find_map(find_selector) {
                m.insert(s, short.to_string());
            }
        }
    }
    for l in cs.lookups() {
        if l.name() == "plain-spreaded lookup" {
            if let Some(s) = l.input_expressions().iter().find_map(find_selector) {
                m.insert(s, "lookup".to_string());
            }
        }
    }
    m
}

pub struct ShaTrace {
    /// one rendered line per chip region, in synthesis order
    pub regions: Vec<String>,
    /// the chip cells copied into later non-chip regions (the digest words), in order
    pub outputs: Vec<String>,
    /// number of external advice cells feeding the chip (block words)
    pub externals: usize,
    /// rows of the loaded spread table `(tag, plain, spreaded)`
    pub table: Vec<Vec<F>>,
    /// per chip region: `<cells> <sources>` — the honest witness values of the region's advice
    /// cells (`off.col:value`) and of the sources of its copy constraints (`name:value`)
    pub witness: Vec<String>,
    /// per chip region: absolute `(column, row)` of its advice cells
    pub cells_abs: Vec<Vec<(usize, usize)>>,
}

/// Synthesises the real stand-alone SHA-256 circuit on `msg` with the recording backend and
/// renders the chip regions.
pub fn record(msg: &[u8]) -> ShaTrace {
    record_circuit(&Sha256Circuit::new(msg.to_vec()), &SHA256_GATES, &SHA256_REGIONS, false)
}

/// Same for the stand-alone SHA-512 circuit.
pub fn record512(msg: &[u8]) -> ShaTrace {
    record_circuit(&Sha512Circuit::new(msg.to_vec()), &SHA512_GATES, &SHA512_REGIONS, false)
}

/// `ext_by_creation`: external cells (`X<n>`) are numbered in the order the cells were created
/// (owner region, offset, column) instead of the order of first use as a copy source.
pub fn record_circuit<C: Circuit<F>>(circuit: &C, gates: &[(&str, &str)], regions: &[(&str, &str)], ext_by_creation: bool) -> ShaTrace
where
    C::Params: Default,
{
    let mut cs = ConstraintSystem::<F>::default();
    let config = C::configure(&mut cs);
    let sel_names = selector_names(&cs, gates);
    let mut rec = Rec::default();
    C::FloorPlanner::synthesize(&mut rec, circuit, config, cs.constants().clone())
        .expect("synthesis of the hash circuit with the recording backend");
    let owners = rec.owners();
    // chip regions = regions that enable a selector of the chip
    let mut chip_index: HashMap<usize, usize> = HashMap::new();
    for (k, r) in rec.regions.iter().enumerate() {
        if r.is_table {
            continue;
        }
        if r.events.iter().any(|e| matches!(e, Ev::Sel(s, _) if sel_names.contains_key(s))) {
            let n = chip_index.len();
            chip_index.insert(k, n);
        }
    }
    // canonical name of a cell as a copy source
    let mut ext: HashMap<CellRef, usize> = HashMap::new();
    if ext_by_creation {
        let mut used: Vec<(usize, usize, usize, CellRef)> = vec![];
        for (l, r) in &rec.copies {
            let lo = owners.get(l).copied();
            let ro = owners.get(r).copied();
            let (src, dsto) = match (lo, ro) {
                (Some(a), Some(b)) if a.0 >= b.0 => (r, a),
                (Some(_), Some(b)) => (l, b),
                (None, Some(b)) => (l, b),
                (Some(a), None) => (r, a),
                (None, None) => continue,
            };
            if src.0 != 'a' || !chip_index.contains_key(&dsto.0) {
                continue;
            }
            if let Some((k, off)) = owners.get(src) {
                if !chip_index.contains_key(k) {
                    used.push((*k, *off, src.1, *src));
                }
            }
        }
        used.sort();
        used.dedup();
        for (n, u) in used.iter().enumerate() {
            ext.insert(u.3, n);
        }
    }
    let mut name_of = |c: &CellRef, rec: &Rec| -> String {
        if c.0 == 'f' {
            return match rec.fixed.get(&(c.1, c.2)) {
                Some(v) => format!("K{}", fe_hex(v)),
                None => format!("?f{}@{}", c.1, c.2),
            };
        }
        if c.0 == 'i' {
            return format!("I{}@{}", c.1, c.2);
        }
        match owners.get(c) {
            Some((k, off)) => match chip_index.get(k) {
                Some(n) => format!("R{n}.{off}.{}", c.1),
                None => {
                    let n = ext.len();
                    format!("X{}", *ext.entry(*c).or_insert(n))
                }
            },
            None => format!("?a{}@{}", c.1, c.2),
        }
    };
    // copies by destination chip region: (dest region, col, off) <- source
    let mut incoming: HashMap<usize, Vec<(usize, usize, String)>> = HashMap::new();
    let mut src_vals: HashMap<usize, Vec<String>> = HashMap::new();
    let value_of = |c: &CellRef| -> String {
        match c.0 {
            'f' => rec.fixed.get(&(c.1, c.2)).map(fe_hex).unwrap_or_else(|| "?".into()),
            'a' => rec.advice.get(&(c.1, c.2)).and_then(|v| v.as_ref().map(fe_hex)).unwrap_or_else(|| "?".into()),
            _ => "?".into(),
        }
    };
    let mut outputs = vec![];
    let region_of = |c: &CellRef| -> Option<(usize, usize)> { owners.get(c).copied() };
    for (l, r) in &rec.copies {
        let lo = region_of(l);
        let ro = region_of(r);
        // destination = the endpoint in the later region (copy_advice assigns the new cell there)
        let (src, dst, dsto) = match (lo, ro) {
            // `copy_advice` calls `constrain_equal(new cell, source cell)`
            (Some(a), Some(b)) if a.0 >= b.0 => (r, l, a),
            (Some(_), Some(b)) => (l, r, b),
            (None, Some(b)) => (l, r, b),
            (Some(a), None) => (r, l, a),
            (None, None) => continue,
        };
        let src_chip = region_of(src).map(|(k, _)| chip_index.contains_key(&k)).unwrap_or(false);
        match chip_index.get(&dsto.0) {
            Some(_) => {
                let s = name_of(src, &rec);
                src_vals.entry(dsto.0).or_default().push(format!("{s}:{}", value_of(src)));
                incoming.entry(dsto.0).or_default().push((dsto.1, dst.1, s));
            }
            None => {
                if src_chip {
                    outputs.push(name_of(src, &rec));
                }
            }
        }
    }
    let kind_of = |name: &str| -> String {
        regions.iter().find(|(n, _)| *n == name).map(|(_, s)| s.to_string()).unwrap_or_else(|| format!("?{}", name.replace(' ', "_")))
    };
    let mut lines = vec![String::new(); chip_index.len()];
    let mut witness = vec![String::new(); chip_index.len()];
    let mut cells_abs = vec![vec![]; chip_index.len()];
    for (k, r) in rec.regions.iter().enumerate() {
        let Some(&n) = chip_index.get(&k) else { continue };
        let mut sels: Vec<(usize, String)> = vec![];
        let mut fixs: Vec<(usize, usize, String)> = vec![];
        let mut advs: Vec<(usize, usize)> = vec![];
        for e in &r.events {
            match e {
                Ev::Sel(s, row) => sels.push((row - r.start, sel_names.get(s).cloned().unwrap_or_else(|| format!("?{s}")))),
                Ev::Fix(c, row) => fixs.push((row - r.start, *c, fe_hex(&rec.fixed[&(*c, *row)]))),
                Ev::Adv(c, row) => advs.push((row - r.start, *c)),
            }
        }
        sels.sort();
        sels.dedup();
        fixs.sort();
        fixs.dedup();
        advs.sort();
        advs.dedup();
        let cells: Vec<String> = advs.iter().map(|(o, c)| format!("{o}.{c}:{}", value_of(&('a', *c, o + r.start)))).collect();
        cells_abs[n] = advs.iter().map(|(o, c)| (*c, o + r.start)).collect();
        let mut sv = src_vals.remove(&k).unwrap_or_default();
        sv.sort();
        sv.dedup();
        witness[n] = format!("{} {}", if cells.is_empty() { "-".to_string() } else { cells.join(",") }, if sv.is_empty() { "-".to_string() } else { sv.join(",") });
        let mut cps = incoming.remove(&k).unwrap_or_default();
        cps.sort();
        cps.dedup();
        let j = |v: Vec<String>| if v.is_empty() { "-".to_string() } else { v.join(",") };
        lines[n] = format!(
            "{} s:{} f:{} a:{} c:{}",
            kind_of(&r.name),
            j(sels.iter().map(|(o, s)| format!("{s}@{o}")).collect()),
            j(fixs.iter().map(|(o, c, v)| format!("{c}@{o}={v}")).collect()),
            j(advs.iter().map(|(o, c)| format!("{c}@{o}")).collect()),
            j(cps.iter().map(|(o, c, s)| format!("{s}>{c}@{o}")).collect()),
        );
    }
    ShaTrace { regions: lines, outputs, externals: ext.len(), table: rec.table_rows("spread table"), witness, cells_abs }
}

/// Targeted tamper sweep (failing-input search): EVERY advice cell of the chip regions of the
/// message schedule head, two schedule steps, two compression rounds and the final state addition is
/// changed (`+1`, and `+2^32` for the plain words); the real constraint system must reject. An
/// accepted change is an unconstrained cell of the wiring (e.g. a dropped copy constraint).
fn run_search(ctx: &mut Ctx) {
    use crate::circuits::{cell_value, mock_run, tamper_accepts, Mock};
    let msg: Vec<u8> = (0..5u8).map(|j| j.wrapping_mul(37).wrapping_add(11)).collect();
    let t = match mzkh::catch(|| record(&msg)) {
        Ok(t) => t,
        Err(_) => return,
    };
    let circuit = Sha256Circuit::new(msg.clone());
    let Mock::Ran { mut prover, ok: true, .. } = mock_run(&circuit, 13) else { return };
    let n = t.regions.len();
    let mut picked: Vec<usize> = vec![];
    picked.extend(0..2.min(n)); // prepW of block words
    picked.extend((16..22).filter(|k| *k < n)); // two schedule steps (σ₀, σ₁, prepW)
    picked.extend((160..172).filter(|k| *k < n)); // rounds 0 and 1
    picked.extend((n.saturating_sub(14)..n).filter(|k| *k >= 172)); // last round and state addition
    for k in picked {
        let kind = t.regions[k].split(' ').next().unwrap_or("?").to_string();
        for &(c, r) in &t.cells_abs[k] {
            let Some(v) = cell_value(&prover, c, r) else { continue };
            for (fk, nv) in [("plus1", v + F::from(1u64)), ("plus2^32", v + F::from(1u64 << 32))] {
                ctx.count(&format!("search:sha256:tamper:{fk}"));
                if tamper_accepts(&mut prover, &[(c, r, nv)], 2) {
                    let off = t.regions[k].len(); // keep the key independent of values
                    let _ = off;
                    ctx.oracle_fail(
                        &format!("sha256:wiring:unconstrained-cell:{kind}:col={c}"),
                        "SHA-256 circuit accepts a modified advice cell of a chip region (cell not bound by gate, lookup or copy constraint)",
                        json!({"message": crate::bytes::hex(&msg), "chip_region": k, "kind": kind, "column": c, "row": r,
                               "honest": fe_hex(&v), "forged": fe_hex(&nv), "change": fk}),
                    );
                }
            }
        }
    }
}

/// Same targeted sweep on the SHA-512 chip (fewer regions: `prepare_message_word` of block word 0, the
/// first schedule step, round 0, the end of the state addition). The gates of this chip read
/// rows `-1..+3`, hence the larger re-check radius.
fn run_search512(ctx: &mut Ctx) {
    use crate::circuits::{cell_value, mock_run, tamper_accepts, Mock};
    let msg: Vec<u8> = (0..5u8).map(|j| j.wrapping_mul(41).wrapping_add(7)).collect();
    let t = match mzkh::catch(|| record512(&msg)) {
        Ok(t) => t,
        Err(_) => return,
    };
    let circuit = Sha512Circuit::new(msg.clone());
    let Mock::Ran { mut prover, ok: true, .. } = mock_run(&circuit, 14) else { return };
    let n = t.regions.len();
    let mut picked: Vec<usize> = vec![];
    picked.extend(0..1.min(n)); // prepW of block word 0
    picked.extend((16..19).filter(|k| *k < n)); // first schedule step (σ₀, σ₁, prepW)
    picked.extend((208..214).filter(|k| *k < n)); // round 0
    picked.extend((n.saturating_sub(2)..n).filter(|k| *k >= 214)); // the last two regions of the state addition
    for k in picked {
        let kind = t.regions[k].split(' ').next().unwrap_or("?").to_string();
        for &(c, r) in &t.cells_abs[k] {
            let Some(v) = cell_value(&prover, c, r) else { continue };
            ctx.count("search:sha512:tamper:plus1");
            let nv = v + F::from(1u64);
            if tamper_accepts(&mut prover, &[(c, r, nv)], 4) {
                ctx.oracle_fail(
                    &format!("sha512:wiring:unconstrained-cell:{kind}:col={c}"),
                    "SHA-512 circuit accepts a modified advice cell of a chip region (cell not bound by gate, lookup or copy constraint)",
                    json!({"message": crate::bytes::hex(&msg), "chip_region": k, "kind": kind, "column": c, "row": r,
                           "honest": fe_hex(&v), "forged": fe_hex(&nv), "change": "plus1"}),
                );
            }
        }
    }
}

/// The loaded plain-spreaded table, one line per tag (rows in table order).
fn emit_table(ctx: &mut Ctx, prefix: &str, table: &[Vec<F>]) {
    let mut by_tag: Vec<(String, Vec<String>)> = vec![];
    for row in table {
        if row.len() != 3 {
            ctx.oracle_fail(&format!("{prefix}:spread-table-shape"), "the spread table does not have three columns", json!({"row_len": row.len()}));
            return;
        }
        let tag = fe_hex(&row[0]);
        let item = format!("{}:{}", fe_hex(&row[1]), fe_hex(&row[2]));
        match by_tag.last_mut() {
            Some((t0, v)) if *t0 == tag => v.push(item),
            _ => by_tag.push((tag, vec![item])),
        }
    }
    let (tags_op, table_op) = if prefix == "sha256" { ("spreadtags", "spreadtable") } else { ("spread512tags", "spread512table") };
    ctx.case(&format!("{prefix}:spread-table:tags"), true, tags_op, &by_tag.iter().map(|(t, v)| format!("{t}:{}", v.len())).collect::<Vec<_>>().join(","));
    for (n, (tag, rows)) in by_tag.iter().enumerate() {
        ctx.case(&format!("{prefix}:spread-table:rows"), true, &format!("{table_op} {n} {tag}"), &rows.join(","));
    }
}

/// SHA-512 chip: region trace and loaded table (emitter `MidnightZK.C07.Chip512.emit`).
fn run512(ctx: &mut Ctx) {
    let plan: &[(usize, &[usize])] = if ctx.quick() { &[(1, &[5, 111]), (2, &[112])] } else { &[(1, &[5, 0, 111]), (2, &[128, 112, 239])] };
    let mut table_done = false;
    for (nblocks, lens) in plan {
        for (i, &len) in lens.iter().enumerate() {
            let msg: Vec<u8> = (0..len).map(|j| (j * 5 + 3) as u8).collect();
            let t = match mzkh::catch(|| record512(&msg)) {
                Ok(t) => t,
                Err(e) => {
                    ctx.oracle_fail(&format!("sha512:trace:synthesis-failed:len={len}"), "SHA-512 circuit cannot be synthesised with the recording backend", json!({"len": len, "error": e}));
                    continue;
                }
            };
            ctx.case("sha512:trace:shape", true, &format!("sha512shape {nblocks}"), &format!("regions={} externals={} outputs={}", t.regions.len(), t.externals, t.outputs.join(",")));
            for (k, line) in t.regions.iter().enumerate() {
                if i == 0 || k % 7 == i % 7 || k < 40 || k + 40 >= t.regions.len() {
                    ctx.case(&format!("sha512:trace:region:{}", line.split(' ').next().unwrap_or("?")), true, &format!("sha512region {nblocks} {k}"), line);
                }
            }
            ctx.count_n("sha512:trace:regions-recorded", t.regions.len() as u64);
            // the REAL honest witness must satisfy the model's `Sat` of every region (hypothesis of the
            // SHA-512 soundness theorems not stronger than the real circuit)
            if i == 0 && (*nblocks == 1 || !ctx.quick()) {
                for (k, w) in t.witness.iter().enumerate() {
                    ctx.case("sha512:trace:honest-witness-sat", true, &format!("sha512sat {nblocks} {k} {w}"), "ok");
                }
            }
            if !table_done {
                table_done = true;
                emit_table(ctx, "sha512", &t.table);
            }
        }
    }
}

pub fn run(ctx: &mut Ctx) {
    if ctx.search() {
        run_search(ctx);
        run_search512(ctx);
    }
    run512(ctx);
    // the chip regions depend on the number of blocks only: several lengths per block count
    let plan: &[(usize, &[usize])] = if ctx.quick() { &[(1, &[3, 0, 55]), (2, &[64, 56])] } else { &[(1, &[3, 0, 1, 55]), (2, &[64, 56, 119]), (3, &[120, 183])] };
    let mut table_done = false;
    for (nblocks, lens) in plan {
        for (i, &len) in lens.iter().enumerate() {
            let msg: Vec<u8> = (0..len).map(|j| (j * 7 + 1) as u8).collect();
            let t = match mzkh::catch(|| record(&msg)) {
                Ok(t) => t,
                Err(e) => {
                    ctx.oracle_fail(&format!("sha256:trace:synthesis-failed:len={len}"), "SHA-256 circuit cannot be synthesised with the recording backend", json!({"len": len, "error": e}));
                    continue;
                }
            };
            ctx.case("sha256:trace:shape", true, &format!("sha256shape {nblocks}"), &format!("regions={} externals={} outputs={}", t.regions.len(), t.externals, t.outputs.join(",")));
            // every region for the first length of the class; for the other lengths the regions
            // are emitted too (the op line is the same: the structure must not depend on the length)
            for (k, line) in t.regions.iter().enumerate() {
                if i == 0 || k % 7 == i % 7 || k < 40 || k + 40 >= t.regions.len() {
                    ctx.case(&format!("sha256:trace:region:{}", line.split(' ').next().unwrap_or("?")), true, &format!("sha256region {nblocks} {k}"), line);
                }
            }
            ctx.count_n("sha256:trace:regions-recorded", t.regions.len() as u64);
            // the REAL honest witness must satisfy the model's `Sat` of every region (gates, lookups,
            // copies): guards the soundness theorems against an over-strong (vacuous) hypothesis
            if i == 0 && (*nblocks == 1 || !ctx.quick()) {
                for (k, w) in t.witness.iter().enumerate() {
                    ctx.case("sha256:trace:honest-witness-sat", true, &format!("sha256sat {nblocks} {k} {w}"), "ok");
                }
            }
            if !table_done {
                table_done = true;
                emit_table(ctx, "sha256", &t.table);
            }
        }
    }
}
