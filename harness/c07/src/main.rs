//! Correspondence harness of property C07 (hash gadgets equal their reference functions).
use mzkh::Ctx;

mod bytes;
mod circuits;
mod poseidon;

fn main() {
    let mut ctx = Ctx::from_args("C07");
    poseidon::run(&mut ctx);
    bytes::run(&mut ctx);
    ctx.finish();
}
