//! Correspondence harness of property C07 (hash gadgets equal their reference functions).
//!
//! * `h-c07 --dump-sha-gates FILE`: runs the REAL `Sha256Chip::configure` and writes its gate
//!   polynomials and lookup arguments as expression ASTs (JSON) for `translators/c07_shagates.py`.
//! * `h-c07 --dump-sha512-gates FILE`: same for the REAL `Sha512Chip::configure`.
//! * `h-c07 --dump-rmd-gates FILE`: same for the REAL `RipeMD160Chip::configure`.
//! * `h-c07 --tier T --seed S --out DIR`: correspondence + oracle run.
use mzkh::Ctx;

mod bytes;
mod circuits;
mod poseidon;
mod rec;
mod rmdchip;
mod shachip;

fn main() {
    let args: Vec<String> = std::env::args().collect();
    if args.len() >= 3 && args[1] == "--dump-sha-gates" {
        shachip::dump_gates(&args[2], false);
        return;
    }
    if args.len() >= 3 && args[1] == "--dump-sha512-gates" {
        shachip::dump_gates(&args[2], true);
        return;
    }
    if args.len() >= 3 && args[1] == "--dump-rmd-gates" {
        rmdchip::dump_gates(&args[2]);
        return;
    }
    if args.len() >= 3 && args[1] == "--rmd-trace-debug" {
        let len: usize = args[2].parse().unwrap();
        let msg: Vec<u8> = (0..len).map(|j| (j * 7 + 1) as u8).collect();
        let t = rmdchip::record(&msg);
        for (k, l) in t.regions.iter().enumerate() {
            println!("{k} {l}");
        }
        for (k, l) in t.witness.iter().enumerate() {
            println!("W{k} {l}");
        }
        println!("outputs {}", t.outputs.join(","));
        println!("externals {}", t.externals);
        return;
    }
    if args.len() >= 3 && args[1] == "--sha-trace-debug" {
        let len: usize = args[2].parse().unwrap();
        let msg: Vec<u8> = (0..len).map(|j| (j * 7 + 1) as u8).collect();
        let t = shachip::record(&msg);
        for (k, l) in t.regions.iter().enumerate() {
            println!("{k} {l}");
        }
        println!("outputs {}", t.outputs.join(","));
        println!("externals {}", t.externals);
        return;
    }
    let mut ctx = Ctx::from_args("C07");
    // debugging aid: VERIF_C07_ONLY=shachip runs the chip-wiring part alone
    let only = std::env::var("VERIF_C07_ONLY").unwrap_or_default();
    if only == "rmdchip" {
        rmdchip::run(&mut ctx);
        ctx.finish();
        return;
    }
    if only == "shachip" {
        shachip::run(&mut ctx);
        ctx.finish();
        return;
    }
    if ctx.search() {
        // the targeted wiring sweep first: it is the one that turns a broken trace tie into a replay
        shachip::run(&mut ctx);
        rmdchip::run(&mut ctx);
        poseidon::run(&mut ctx);
        bytes::run(&mut ctx);
    } else {
        poseidon::run(&mut ctx);
        bytes::run(&mut ctx);
        shachip::run(&mut ctx);
        rmdchip::run(&mut ctx);
    }
    ctx.finish();
}
