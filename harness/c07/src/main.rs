//! Correspondence harness of property C07 (stub).
use mzkh::Ctx;

fn main() {
    let ctx = Ctx::from_args("C07");
    ctx.finish();
}
