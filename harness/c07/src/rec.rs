//! `Rec`: an `Assignment` backend that logs the real synthesis of a circuit (regions with their
//! names, enabled selectors, fixed cells with values, advice cells with values, copy constraints,
//! lookup-table cells). `Assignment` is a public trait and `SimpleFloorPlanner::synthesize` accepts
//! any implementation, so no hook is needed. Region starts are recomputed exactly as
//! `SingleChipLayouter` places them (first row at which none of the region's columns is in use),
//! so every cell gets the region-relative coordinates the chip code wrote.

use std::collections::{BTreeMap, BTreeSet, HashMap};

use midnight_proofs::{
    circuit::Value,
    plonk::{Advice, Any, Assignment, Challenge, Column, Error, Fixed, Instance, Selector},
    utils::rational::Rational,
};

use crate::circuits::F;

#[derive(Clone, Debug, PartialEq, Eq, PartialOrd, Ord)]
pub enum Ev {
    /// selector index, absolute row
    Sel(usize, usize),
    /// fixed column, absolute row
    Fix(usize, usize),
    /// advice column, absolute row
    Adv(usize, usize),
}

#[derive(Clone, Debug, Default)]
pub struct RegionRec {
    pub name: String,
    pub events: Vec<Ev>,
    pub start: usize,
    pub is_table: bool,
}

/// `('a'|'f'|'i', column index, absolute row)`
pub type CellRef = (char, usize, usize);

#[derive(Default)]
pub struct Rec {
    pub regions: Vec<RegionRec>,
    cur: Option<usize>,
    /// copy constraints in request order, absolute coordinates
    pub copies: Vec<(CellRef, CellRef)>,
    pub advice: BTreeMap<(usize, usize), Option<F>>,
    pub fixed: BTreeMap<(usize, usize), F>,
    next_free: HashMap<String, usize>,
}

fn cell(c: Column<Any>, row: usize) -> CellRef {
    let k = match c.column_type() {
        Any::Advice(_) => 'a',
        Any::Fixed => 'f',
        Any::Instance => 'i',
    };
    (k, c.index(), row)
}

impl Assignment<F> for Rec {
    fn enter_region<NR, N>(&mut self, name_fn: N)
    where
        NR: Into<String>,
        N: FnOnce() -> NR,
    {
        let name: String = name_fn().into();
        let is_table = name.ends_with(" table");
        self.regions.push(RegionRec { name, events: vec![], start: 0, is_table });
        self.cur = Some(self.regions.len() - 1);
    }

    fn annotate_column<A, AR>(&mut self, _annotation: A, _column: Column<Any>)
    where
        A: FnOnce() -> AR,
        AR: Into<String>,
    {
    }

    fn exit_region(&mut self) {
        let k = self.cur.take().expect("exit without enter");
        let r = &mut self.regions[k];
        if r.is_table {
            return;
        }
        let mut cols: BTreeSet<String> = BTreeSet::new();
        let mut min_row = usize::MAX;
        let mut max_row = 0usize;
        for e in &r.events {
            let (key, row) = match e {
                Ev::Sel(s, row) => (format!("s{s}"), *row),
                Ev::Fix(c, row) => (format!("f{c}"), *row),
                Ev::Adv(c, row) => (format!("a{c}"), *row),
            };
            cols.insert(key);
            min_row = min_row.min(row);
            max_row = max_row.max(row);
        }
        if cols.is_empty() {
            return;
        }
        let start = cols.iter().map(|c| *self.next_free.get(c).unwrap_or(&0)).max().unwrap();
        assert!(min_row >= start, "region {k} ({}) touches row {min_row} < start {start}", r.name);
        r.start = start;
        let row_count = max_row + 1 - start;
        for c in cols {
            self.next_free.insert(c, start + row_count);
        }
    }

    fn enable_selector<A, AR>(&mut self, _: A, selector: &Selector, row: usize) -> Result<(), Error>
    where
        A: FnOnce() -> AR,
        AR: Into<String>,
    {
        let k = self.cur.expect("selector outside region");
        self.regions[k].events.push(Ev::Sel(selector.index(), row));
        Ok(())
    }

    fn query_instance(&self, _column: Column<Instance>, _row: usize) -> Result<Value<F>, Error> {
        Ok(Value::unknown())
    }

    fn assign_advice<V, VR, A, AR>(&mut self, _: A, column: Column<Advice>, row: usize, to: V) -> Result<(), Error>
    where
        V: FnOnce() -> Value<VR>,
        VR: Into<Rational<F>>,
        A: FnOnce() -> AR,
        AR: Into<String>,
    {
        let k = self.cur.expect("advice outside region");
        let mut val = None;
        to().map(|v| {
            let r: Rational<F> = v.into();
            val = Some(r.evaluate());
        });
        self.regions[k].events.push(Ev::Adv(column.index(), row));
        self.advice.insert((column.index(), row), val);
        Ok(())
    }

    fn assign_fixed<V, VR, A, AR>(&mut self, _: A, column: Column<Fixed>, row: usize, to: V) -> Result<(), Error>
    where
        V: FnOnce() -> Value<VR>,
        VR: Into<Rational<F>>,
        A: FnOnce() -> AR,
        AR: Into<String>,
    {
        let mut val = None;
        to().map(|v| {
            let r: Rational<F> = v.into();
            val = Some(r.evaluate());
        });
        let v = val.expect("fixed value must be known");
        if let Some(k) = self.cur {
            self.regions[k].events.push(Ev::Fix(column.index(), row));
        }
        self.fixed.insert((column.index(), row), v);
        Ok(())
    }

    fn copy(&mut self, lc: Column<Any>, lr: usize, rc: Column<Any>, rr: usize) -> Result<(), Error> {
        self.copies.push((cell(lc, lr), cell(rc, rr)));
        Ok(())
    }

    fn fill_from_row(&mut self, _: Column<Fixed>, _: usize, _: Value<Rational<F>>) -> Result<(), Error> {
        Ok(())
    }

    fn get_challenge(&self, _challenge: Challenge) -> Value<F> {
        Value::unknown()
    }

    fn push_namespace<NR, N>(&mut self, _: N)
    where
        NR: Into<String>,
        N: FnOnce() -> NR,
    {
    }

    fn pop_namespace(&mut self, _: Option<String>) {}
}

impl Rec {
    /// `(kind, column, absolute row)` of an advice/fixed cell -> `(region index, offset)`.
    pub fn owners(&self) -> HashMap<CellRef, (usize, usize)> {
        let mut owner = HashMap::new();
        for (k, r) in self.regions.iter().enumerate() {
            if r.is_table {
                continue;
            }
            for e in &r.events {
                match e {
                    Ev::Fix(c, row) => {
                        owner.insert(('f', *c, *row), (k, row - r.start));
                    }
                    Ev::Adv(c, row) => {
                        owner.insert(('a', *c, *row), (k, row - r.start));
                    }
                    _ => {}
                }
            }
        }
        owner
    }

    /// Rows of the table region called `name`: for each absolute row the values of the table
    /// columns in increasing column order.
    pub fn table_rows(&self, name: &str) -> Vec<Vec<F>> {
        let mut rows: BTreeMap<usize, Vec<(usize, F)>> = BTreeMap::new();
        for r in &self.regions {
            if r.name != name {
                continue;
            }
            for e in &r.events {
                if let Ev::Fix(c, row) = e {
                    rows.entry(*row).or_default().push((*c, self.fixed[&(*c, *row)]));
                }
            }
        }
        rows.into_values()
            .map(|mut cells| {
                cells.sort_by_key(|c| c.0);
                cells.dedup_by_key(|c| c.0);
                cells.into_iter().map(|c| c.1).collect()
            })
            .collect()
    }
}
