//! Poseidon: off-circuit permutation / sponge / hash, in-circuit hash / sponge / var-len hash,
//! permutation-region row traces, tamper sweep.
use ff::{Field, PrimeField};
use midnight_circuits::{
    hash::poseidon::{
        constants::PoseidonField, permutation_cpu, round_skips::PreComputedRoundCPU, PoseidonChip,
        PoseidonState, VarLenPoseidonGadget,
    },
    instructions::{hash::HashCPU, SpongeCPU},
    types::AssignedNative,
    vec::get_lims,
};
use midnight_proofs::{
    dev::CellValue,
    plonk::{Circuit, ConstraintSystem, Expression},
    transcript::TranscriptHash,
};
use mzkh::{catch, fe_hex, join, Ctx};
use rand::{Rng, RngCore};
use serde_json::json;

use crate::circuits::{
    assigned_cells, cell_value, mock_run, tamper_accepts, tamper_accepts_at, HashCircuit, Mock, SpongeCircuit, Step,
    VarHashCircuit, F,
};

const W: usize = 3;
const RATE: usize = 2;

fn hexes(v: &[F]) -> String {
    join(&v.iter().map(fe_hex).collect::<Vec<_>>())
}

/// Harness-side plain Poseidon (the published algorithm): for each round, add the round
/// constants, apply `x^5` (all cells in full rounds, cell `WIDTH-1` in partial rounds), multiply by
/// the MDS matrix. Reads only `F::MDS`, `F::ROUND_CONSTANTS` and the round counts.
pub fn textbook(st: &[F; W]) -> [F; W] {
    let rf = PoseidonChip::<F>::nb_full_rounds();
    let rp = PoseidonChip::<F>::nb_partial_rounds();
    let mut s = *st;
    for r in 0..rf + rp {
        for i in 0..W {
            s[i] += <F as PoseidonField>::ROUND_CONSTANTS[r][i];
        }
        let full = r < rf / 2 || r >= rf / 2 + rp;
        for i in 0..W {
            if full || i == W - 1 {
                s[i] = s[i].square().square() * s[i];
            }
        }
        let mut n = [F::ZERO; W];
        for i in 0..W {
            for j in 0..W {
                n[i] += <F as PoseidonField>::MDS[i][j] * s[j];
            }
        }
        s = n;
    }
    s
}

/// Harness-side fixed-length hash over the textbook permutation (capacity cell = length).
fn ref_hash(inputs: &[F]) -> F {
    let mut reg = [F::ZERO; W];
    reg[RATE] = F::from(inputs.len() as u64);
    for chunk in inputs.chunks(RATE) {
        for (r, v) in reg.iter_mut().zip(chunk) {
            *r += v;
        }
        reg = textbook(&reg);
    }
    reg[0]
}

fn boundary_elems() -> Vec<F> {
    vec![F::ZERO, F::ONE, -F::ONE, F::from(2), F::from(u64::MAX), -F::from(2), F::ROOT_OF_UNITY]
}

fn rand_elem(rng: &mut impl RngCore) -> F {
    match rng.gen_range(0..10) {
        0 => boundary_elems()[rng.gen_range(0..7)],
        1 => F::from(rng.gen_range(0..256u64)),
        _ => F::random(rng),
    }
}

fn run_perm(ctx: &mut Ctx) {
    let mut rng = ctx.rng("poseidon-perm");
    let pre = PreComputedRoundCPU::<F>::init();
    let mut states: Vec<[F; W]> = vec![];
    let b = boundary_elems();
    for x in &b {
        states.push([*x; W]);
    }
    for i in 0..W {
        let mut s = [F::ZERO; W];
        s[i] = F::ONE;
        states.push(s);
        let mut s = [F::ZERO; W];
        s[i] = -F::ONE;
        states.push(s);
    }
    states.push([F::ZERO, F::ONE, F::from(2)]);
    let n = if ctx.quick() { 60 } else { 600 };
    for _ in 0..n {
        states.push([rand_elem(&mut rng), rand_elem(&mut rng), rand_elem(&mut rng)]);
    }
    for st in &states {
        let mut out = *st;
        permutation_cpu(&pre, &mut out);
        let ans = hexes(&out);
        let arg = hexes(st);
        let nontrivial = st.iter().any(|x| !bool::from(x.is_zero()));
        ctx.case("perm:cpu", nontrivial, &format!("perm cpu {arg}"), &ans);
        // the same answer is claimed for the published permutation and for the skip-free one
        ctx.case("perm:textbook", nontrivial, &format!("perm textbook {arg}"), &ans);
        ctx.case("perm:raw", nontrivial, &format!("perm raw {arg}"), &ans);
        if textbook(st) != out {
            ctx.oracle_fail(
                "poseidon:permutation_cpu!=textbook",
                "off-circuit Poseidon permutation differs from the textbook permutation with the source constants",
                json!({"state": arg, "cpu": ans, "textbook": hexes(&textbook(st))}),
            );
        }
    }
}

fn gen_inputs(rng: &mut impl RngCore, len: usize, mode: usize) -> Vec<F> {
    (0..len)
        .map(|i| match mode {
            0 => F::ZERO,
            1 => -F::ONE,
            2 => F::from(i as u64 + 1),
            _ => rand_elem(rng),
        })
        .collect()
}

/// In-circuit fixed-length hash through the stand-alone chip. Returns the digest.
fn circuit_hash(ctx: &mut Ctx, inputs: &[F], what: &str) -> Option<F> {
    let circuit = HashCircuit::<AssignedNative<F>, AssignedNative<F>, PoseidonChip<F>>::new(inputs.to_vec());
    match mock_run(&circuit, 6) {
        Mock::Ran { ok, failures, .. } => {
            ctx.count("mock:poseidon-hash");
            if !ok {
                ctx.oracle_fail(
                    &format!("poseidon:{what}:honest-rejected:len={}", inputs.len()),
                    "MockProver rejects the honest Poseidon hash circuit",
                    json!({"inputs": hexes(inputs), "failures": failures}),
                );
            }
            let d = *circuit.out.borrow();
            d
        }
        Mock::Failed(e) => {
            ctx.oracle_fail(
                &format!("poseidon:{what}:synthesis-failed:len={}", inputs.len()),
                "Poseidon hash circuit cannot be synthesised",
                json!({"inputs": hexes(inputs), "error": e}),
            );
            None
        }
    }
}

fn run_hash(ctx: &mut Ctx) {
    let mut rng = ctx.rng("poseidon-hash");
    let reps = if ctx.quick() { 2 } else { 12 };
    let max_len = if ctx.quick() { 12 } else { 40 };
    for len in 0..=max_len {
        for mode in 0..3 + reps {
            let inputs = gen_inputs(&mut rng, len, mode);
            let d = <PoseidonChip<F> as HashCPU<F, F>>::hash(&inputs);
            ctx.case(&format!("hash:cpu:len{}", len.min(13)), len > 0, &format!("hash cpu {}", hexes(&inputs)), &fe_hex(&d));
            if d != ref_hash(&inputs) {
                ctx.oracle_fail(
                    &format!("poseidon:hash-cpu!=reference:len={len}"),
                    "off-circuit Poseidon hash differs from the sponge over the textbook permutation",
                    json!({"inputs": hexes(&inputs)}),
                );
            }
        }
    }
    // in circuit: every length 0..12
    let creps = if ctx.quick() { 2 } else { 4 };
    for len in 0..=12usize {
        for rep in 0..creps {
            let inputs = gen_inputs(&mut rng, len, if rep == 0 { 3 } else { rep - 1 });
            let Some(d) = circuit_hash(ctx, &inputs, "hash") else { continue };
            ctx.case(&format!("hash:circuit:len{len}"), len > 0, &format!("hash circuit {}", hexes(&inputs)), &fe_hex(&d));
            let cpu = <PoseidonChip<F> as HashCPU<F, F>>::hash(&inputs);
            if d != cpu {
                ctx.oracle_fail(
                    &format!("poseidon:hash-circuit!=cpu:len={len}"),
                    "in-circuit Poseidon digest differs from the off-circuit hash",
                    json!({"inputs": hexes(&inputs), "circuit": fe_hex(&d), "cpu": fe_hex(&cpu)}),
                );
            }
        }
    }
}

fn script_str(input_len: Option<usize>, script: &[Step]) -> String {
    let mut toks = vec![match input_len {
        None => "N".to_string(),
        Some(n) => format!("L{n}"),
    }];
    for s in script {
        toks.push(match s {
            Step::Absorb(v) => format!("a:{}", hexes(v)),
            Step::Squeeze => "s".to_string(),
        });
    }
    toks.join(" ")
}

/// Off-circuit sponge: `TranscriptHash for PoseidonState` in the unbounded mode (the transcript
/// path), `SpongeCPU for PoseidonChip` in the fixed-length mode.
fn cpu_sponge(input_len: Option<usize>, script: &[Step]) -> String {
    let mut outs: Vec<String> = vec![];
    let r = catch(|| {
        let mut outs = vec![];
        match input_len {
            None => {
                let mut st = <PoseidonState<F> as TranscriptHash>::init();
                for s in script {
                    match s {
                        Step::Absorb(v) => TranscriptHash::absorb(&mut st, v),
                        Step::Squeeze => outs.push(fe_hex(&TranscriptHash::squeeze(&mut st))),
                    }
                }
            }
            Some(_) => {
                let mut st = <PoseidonChip<F> as SpongeCPU<F, F>>::init(input_len);
                for s in script {
                    match s {
                        Step::Absorb(v) => <PoseidonChip<F> as SpongeCPU<F, F>>::absorb(&mut st, v),
                        Step::Squeeze => {
                            // a panic loses the values squeezed so far: collect through a side channel
                            let o = catch(|| <PoseidonChip<F> as SpongeCPU<F, F>>::squeeze(&mut st));
                            match o {
                                Ok(o) => outs.push(fe_hex(&o)),
                                Err(_) => {
                                    outs.push("panic".into());
                                    return outs;
                                }
                            }
                        }
                    }
                }
            }
        }
        outs
    });
    match r {
        Ok(v) => outs.extend(v),
        Err(_) => outs.push("panic".into()),
    }
    if outs.is_empty() {
        "-".into()
    } else {
        outs.join(" ")
    }
}

fn gen_script(rng: &mut impl RngCore, input_len: Option<usize>) -> Vec<Step> {
    let mut script = vec![];
    match input_len {
        None => {
            let steps = rng.gen_range(1..7);
            for _ in 0..steps {
                if rng.gen_bool(0.55) {
                    let n = rng.gen_range(0..6);
                    script.push(Step::Absorb((0..n).map(|_| rand_elem(rng)).collect()));
                } else {
                    script.push(Step::Squeeze);
                }
            }
            script.push(Step::Squeeze);
        }
        Some(n) => {
            // split n inputs into 1..3 absorbs, then squeeze
            let mut left = n;
            while left > 0 {
                let c = rng.gen_range(1..=left);
                script.push(Step::Absorb((0..c).map(|_| rand_elem(rng)).collect()));
                left -= c;
            }
            script.push(Step::Squeeze);
        }
    }
    script
}

fn run_sponge(ctx: &mut Ctx) {
    let mut rng = ctx.rng("poseidon-sponge");
    let n = if ctx.quick() { 40 } else { 400 };
    let mut cases: Vec<(Option<usize>, Vec<Step>)> = vec![];
    // fixed boundary scripts
    cases.push((None, vec![Step::Squeeze]));
    cases.push((None, vec![Step::Squeeze, Step::Squeeze, Step::Squeeze, Step::Squeeze]));
    cases.push((None, vec![Step::Absorb(vec![]), Step::Squeeze]));
    cases.push((None, vec![Step::Absorb(vec![F::ONE]), Step::Squeeze, Step::Absorb(vec![F::ONE]), Step::Squeeze, Step::Squeeze]));
    cases.push((Some(0), vec![Step::Squeeze]));
    cases.push((Some(0), vec![Step::Squeeze, Step::Squeeze]));
    cases.push((Some(2), vec![Step::Absorb(vec![F::ONE, F::ONE]), Step::Squeeze, Step::Squeeze]));
    cases.push((Some(3), vec![Step::Absorb(vec![F::ONE, F::ONE]), Step::Squeeze]));
    cases.push((Some(1), vec![Step::Absorb(vec![F::ONE, F::ONE]), Step::Squeeze]));
    for i in 0..n {
        let il = if i % 3 == 0 { Some(rng.gen_range(0..9)) } else { None };
        cases.push((il, gen_script(&mut rng, il)));
    }
    for (il, script) in &cases {
        let s = script_str(*il, script);
        let ans = cpu_sponge(*il, script);
        let kind = if il.is_some() { "sponge:cpu:fixed" } else { "sponge:cpu:transcript" };
        if ans.contains("panic") {
            ctx.count("sponge:cpu:panic(documented)");
        }
        ctx.case(kind, true, &format!("sponge cpu {s}"), &ans);
    }
    // in circuit (scripts that do not panic off circuit)
    let m = if ctx.quick() { 25 } else { 80 };
    let mut done = 0;
    for (il, script) in &cases {
        if done >= m {
            break;
        }
        let cpu = cpu_sponge(*il, script);
        if cpu.contains("panic") {
            continue;
        }
        done += 1;
        let circuit = SpongeCircuit::<PoseidonChip<F>>::new(*il, script.clone());
        let s = script_str(*il, script);
        match mock_run(&circuit, 6) {
            Mock::Ran { ok, failures, .. } => {
                let outs = circuit.outs.borrow().clone();
                let ans = if outs.is_empty() { "-".to_string() } else { outs.iter().map(fe_hex).collect::<Vec<_>>().join(" ") };
                ctx.case("sponge:circuit", true, &format!("sponge circuit {s}"), &ans);
                if !ok {
                    ctx.oracle_fail(&format!("poseidon:sponge:honest-rejected:{s}"), "MockProver rejects the honest Poseidon sponge circuit", json!({"script": s, "failures": failures}));
                }
                if ans != cpu {
                    ctx.oracle_fail(&format!("poseidon:sponge-circuit!=cpu:{s}"), "in-circuit Poseidon sponge output differs from the off-circuit sponge", json!({"script": s, "circuit": ans, "cpu": cpu}));
                }
            }
            Mock::Failed(e) => ctx.oracle_fail(&format!("poseidon:sponge:synthesis-failed:{s}"), "Poseidon sponge circuit cannot be synthesised", json!({"script": s, "error": e})),
        }
    }
}

/// One var-len case for `MAX_LEN = M`: in-circuit digest on a buffer whose unused cells hold
/// `filler`; oracle = digest equals the off-circuit hash of the payload, whatever the filler.
fn varlen_case<const M: usize>(ctx: &mut Ctx, data: &[F], filler: F) {
    let lims = get_lims::<M, RATE>(data.len());
    let mut buffer = vec![filler; M];
    buffer[lims.clone()].copy_from_slice(data);
    ctx.case(
        "varlen:buffer",
        true,
        &format!("buffer {M} {RATE} {} {}", fe_hex(&filler), hexes(data)),
        &hexes(&buffer),
    );
    let circuit = VarHashCircuit::<AssignedNative<F>, AssignedNative<F>, VarLenPoseidonGadget<F>, M, RATE>::new(data.to_vec(), filler);
    let key = format!("M={M},len={},filler={}", data.len(), if bool::from(filler.is_zero()) { "zero" } else { "nonzero" });
    match mock_run(&circuit, 9) {
        Mock::Ran { ok, failures, .. } => {
            ctx.count("mock:poseidon-varlen");
            let Some(d) = *circuit.out.borrow() else { return };
            ctx.case(
                &format!("varlen:circuit:M{M}:{}", if bool::from(filler.is_zero()) { "zero-filler" } else { "adversarial-filler" }),
                true,
                &format!("varlen {M} {} {}", data.len(), hexes(&buffer)),
                &fe_hex(&d),
            );
            if !ok {
                ctx.oracle_fail(&format!("poseidon:varlen:honest-rejected:{key}"), "MockProver rejects the honest var-len Poseidon circuit", json!({"data": hexes(data), "filler": fe_hex(&filler), "failures": failures}));
                return;
            }
            let cpu = <VarLenPoseidonGadget<F> as HashCPU<F, F>>::hash(data);
            if d != cpu {
                let parity = if data.len() % 2 == 1 { "odd" } else { "even" };
                ctx.oracle_fail(
                    &format!("poseidon:varlen-digest-depends-on-filler:len-{parity}"),
                    "var-len Poseidon: the accepted in-circuit digest differs from the hash of the payload (depends on the content of the unused tail)",
                    json!({"MAX_LEN": M, "len": data.len(), "data": hexes(data), "filler": fe_hex(&filler), "circuit_digest": fe_hex(&d), "hash_of_payload": fe_hex(&cpu),
                           "where": "circuits/src/hash/poseidon/poseidon_varlen.rs: poseidon_varlen must apply constrain_last_chunk to the last chunk (index MAX_LEN / RATE - 1); regression of the defect fixed by 7fb7af7"}),
                );
            }
        }
        Mock::Failed(e) => ctx.oracle_fail(&format!("poseidon:varlen:synthesis-failed:{key}"), "var-len Poseidon circuit cannot be synthesised", json!({"data": hexes(data), "error": e})),
    }
}

fn run_varlen(ctx: &mut Ctx) {
    let mut rng = ctx.rng("poseidon-varlen");
    fn sweep<const M: usize>(ctx: &mut Ctx, rng: &mut impl RngCore, fillers: &[F]) {
        for len in 0..=M {
            for f in fillers {
                let data: Vec<F> = (0..len).map(|_| rand_elem(rng)).collect();
                varlen_case::<M>(ctx, &data, *f);
            }
        }
    }
    let adv = F::random(&mut rng);
    if ctx.quick() {
        sweep::<2>(ctx, &mut rng, &[adv]);
        sweep::<4>(ctx, &mut rng, &[F::ZERO, adv, -F::ONE]);
        sweep::<8>(ctx, &mut rng, &[adv, F::ONE]);
        sweep::<12>(ctx, &mut rng, &[adv]);
    } else {
        sweep::<2>(ctx, &mut rng, &[F::ZERO, adv, -F::ONE]);
        sweep::<4>(ctx, &mut rng, &[F::ZERO, adv, -F::ONE]);
        sweep::<6>(ctx, &mut rng, &[F::ZERO, adv]);
        sweep::<8>(ctx, &mut rng, &[F::ZERO, adv, F::ONE]);
        sweep::<12>(ctx, &mut rng, &[F::ZERO, adv]);
        sweep::<16>(ctx, &mut rng, &[adv]);
    }
}

fn find_selector(e: &Expression<F>) -> Option<usize> {
    match e {
        Expression::Selector(s) => Some(s.index()),
        Expression::Negated(a) | Expression::Scaled(a, _) => find_selector(a),
        Expression::Sum(a, b) | Expression::Product(a, b) => find_selector(a).or_else(|| find_selector(b)),
        _ => None,
    }
}

type PHash = HashCircuit<AssignedNative<F>, AssignedNative<F>, PoseidonChip<F>>;

/// Selector indices of the Poseidon full-round and partial-round gates of `PHash`.
fn poseidon_selectors() -> (usize, usize) {
    let mut cs = ConstraintSystem::<F>::default();
    let _ = <PHash as Circuit<F>>::configure(&mut cs);
    let mut full = None;
    let mut partial = None;
    for g in cs.gates() {
        let sel = g.polynomials().iter().find_map(find_selector);
        if g.name() == "full_round_gate" {
            full = sel;
        }
    }
    // the partial-round gate has an additive selector: it lives in a trash argument
    for t in cs.trashcans() {
        if t.constraint_expressions().len() == W + 5 {
            partial = find_selector(t.selector());
        }
    }
    (full.expect("full_round_gate selector"), partial.expect("partial_round_gate selector"))
}

fn cell_hex(c: &CellValue<F>) -> String {
    match c {
        CellValue::Assigned(v) => fe_hex(v),
        _ => "?".into(),
    }
}

/// Rows of the permutation region: state, hint / skip cells and the fixed constants of every
/// round row, read back from the MockProver tables.
fn run_trace(ctx: &mut Ctx) {
    let mut rng = ctx.rng("poseidon-trace");
    let (qf, qp) = poseidon_selectors();
    let n = if ctx.quick() { 12 } else { 60 };
    let skips = 5usize;
    for t in 0..n {
        let inputs: Vec<F> = if t == 0 { vec![F::ZERO, F::ZERO] } else { vec![rand_elem(&mut rng), rand_elem(&mut rng)] };
        let circuit = PHash::new(inputs.clone());
        let Mock::Ran { prover, ok, .. } = mock_run(&circuit, 6) else {
            ctx.oracle_fail("poseidon:trace:synthesis-failed", "Poseidon hash circuit cannot be synthesised", json!({"inputs": hexes(&inputs)}));
            continue;
        };
        if !ok {
            ctx.oracle_fail("poseidon:trace:honest-rejected", "MockProver rejects the honest Poseidon hash circuit", json!({"inputs": hexes(&inputs)}));
        }
        let adv = prover.advice();
        let fix = prover.fixed();
        let sel = prover.selectors();
        let mut items = vec![];
        let mut last_row = 0;
        for row in 0..sel[qf].len() {
            let full = sel[qf][row];
            let part = sel[qp][row];
            if !(full || part) {
                continue;
            }
            let state: Vec<String> = (0..W).map(|c| cell_hex(&adv[c][row])).collect();
            if full {
                let hints: Vec<String> = (W..2 * W).map(|c| cell_hex(&adv[c][row])).collect();
                let consts: Vec<String> = (0..W).map(|c| cell_hex(&fix[c][row])).collect();
                items.push(format!("F:{}|{}|{}", state.join(","), hints.join(","), consts.join(",")));
            } else {
                let pows: Vec<String> = (W..W + skips).map(|c| cell_hex(&adv[c][row])).collect();
                let consts: Vec<String> = (0..W + skips).map(|c| cell_hex(&fix[c][row])).collect();
                items.push(format!("P:{}|{}|{}", state.join(","), pows.join(","), consts.join(",")));
            }
            last_row = row;
        }
        let out: Vec<String> = (0..W).map(|c| cell_hex(&adv[c][last_row + 1])).collect();
        items.push(format!("O:{}", out.join(",")));
        // the register entering the permutation: inputs added to the initial register (0, 0, len)
        let st = [inputs[0], inputs[1], F::from(2)];
        ctx.case("trace:permutation-region", true, &format!("trace {}", hexes(&st)), &items.join(" "));
        ctx.count_n("trace:round-rows", items.len() as u64 - 1);
    }
}

/// Table-level tamper sweep (H2) over the Poseidon hash circuit: every sampled assigned advice
/// cell is replaced by another value; the real constraint system must reject.
fn run_tamper(ctx: &mut Ctx) {
    let mut rng = ctx.rng("poseidon-tamper");
    let lens: &[usize] = if ctx.quick() { &[3] } else { &[0, 1, 2, 3, 5] };
    for &len in lens {
        let inputs: Vec<F> = (0..len).map(|_| F::random(&mut rng)).collect();
        let circuit = PHash::new(inputs.clone());
        let Mock::Ran { mut prover, ok: true, .. } = mock_run(&circuit, 6) else { continue };
        let cells = assigned_cells(&prover);
        let sample = if ctx.quick() { 160 } else { cells.len().min(1200) };
        let exhaustive = sample >= cells.len();
        for i in 0..sample.min(cells.len()) {
            let (c, r) = if exhaustive { cells[i] } else { cells[rng.gen_range(0..cells.len())] };
            let v = cell_value(&prover, c, r).unwrap();
            for (fk, nv) in [("plus1", v + F::ONE), ("zero", F::ZERO), ("random", F::random(&mut rng)), ("neg", -v)] {
                if nv == v {
                    continue;
                }
                ctx.count(&format!("tamper:poseidon:{fk}"));
                if tamper_accepts(&mut prover, &[(c, r, nv)], 2) {
                    ctx.oracle_fail(
                        &format!("poseidon:tamper-accepted:len={len}:col={c}"),
                        "Poseidon hash circuit accepts a modified advice cell (unconstrained intermediate value)",
                        json!({"inputs": hexes(&inputs), "column": c, "row": r, "honest": fe_hex(&v), "forged": fe_hex(&nv)}),
                    );
                }
            }
        }
    }
}

/// Consistent local forgeries of round rows: a hint / skipped-row cell is changed AND every cell
/// the remaining constraints of the row tie to it is recomputed, so that only the constraint that
/// *defines* the changed cell is violated. The row's gate must still reject; if it accepts, the
/// cell is prover-chosen and the permutation output can be steered.
fn run_forge(ctx: &mut Ctx) {
    let mut rng = ctx.rng("poseidon-forge");
    let (qf, qp) = poseidon_selectors();
    let rf = PoseidonChip::<F>::nb_full_rounds();
    let rp = PoseidonChip::<F>::nb_partial_rounds();
    let skips = 5usize;
    let inputs: Vec<F> = vec![F::random(&mut rng), F::random(&mut rng)];
    let circuit = PHash::new(inputs.clone());
    let Mock::Ran { mut prover, ok: true, .. } = mock_run(&circuit, 6) else { return };
    let sel = prover.selectors().clone();
    let full_rows: Vec<usize> = (0..sel[qf].len()).filter(|r| sel[qf][*r]).collect();
    let part_rows: Vec<usize> = (0..sel[qp].len()).filter(|r| sel[qp][*r]).collect();
    let mds = <F as PoseidonField>::MDS;
    let rc = <F as PoseidonField>::ROUND_CONSTANTS;
    // full rounds: hint_j += delta, outputs follow the linear layer
    for (n, &r) in full_rows.iter().enumerate() {
        if n + 1 == full_rows.len() {
            continue; // the outputs of the last round are the (copied) result
        }
        for j in 0..W {
            let delta = F::random(&mut rng);
            let x = cell_value(&prover, j, r).unwrap();
            let hint = cell_value(&prover, W + j, r).unwrap();
            let mut cells = vec![(W + j, r, hint + delta)];
            for i in 0..W {
                let o = cell_value(&prover, i, r + 1).unwrap();
                cells.push((i, r + 1, o + mds[i][j] * x.square() * delta));
            }
            ctx.count("forge:poseidon:full-round-hint");
            if tamper_accepts_at(&mut prover, &cells, 0, Some(vec![r])) {
                ctx.oracle_fail(
                    "poseidon:forge-accepted:full-round-hint",
                    "Poseidon full-round gate accepts a forged S-box hint with consistently recomputed outputs (the hint is not bound to x^3)",
                    json!({"inputs": hexes(&inputs), "row": r, "cell": j, "delta": fe_hex(&delta)}),
                );
            }
        }
    }
    // partial batches: skipped-row cell p_i += delta, later cells and outputs recomputed by raw rounds
    for (b, &r) in part_rows.iter().enumerate() {
        let round0 = rf / 2 + b * (1 + skips);
        let st: Vec<F> = (0..W).map(|c| cell_value(&prover, c, r).unwrap()).collect();
        for i in 0..skips {
            let delta = F::random(&mut rng);
            // raw shifted partial rounds with the last cell of skipped row `i` forced
            let mut s = [st[0], st[1], st[2]];
            let mut pows = vec![];
            for t in 0..=skips {
                let mut y = s;
                y[W - 1] = y[W - 1].square().square() * y[W - 1];
                let mut nx = rc[round0 + t + 1];
                for a in 0..W {
                    for c in 0..W {
                        nx[a] += mds[a][c] * y[c];
                    }
                }
                s = nx;
                if t < skips {
                    if t == i {
                        s[W - 1] += delta;
                    }
                    pows.push(s[W - 1]);
                }
            }
            let mut cells = vec![];
            for (t, p) in pows.iter().enumerate() {
                cells.push((W + t, r, *p));
            }
            for a in 0..W {
                cells.push((a, r + 1, s[a]));
            }
            // sanity of the recomputation itself: delta = 0 must reproduce the honest cells
            ctx.count("forge:poseidon:partial-skip-cell");
            if b + 1 == part_rows.len() && rp % (1 + skips) != 0 {
                continue;
            }
            if tamper_accepts_at(&mut prover, &cells, 0, Some(vec![r])) {
                ctx.oracle_fail(
                    "poseidon:forge-accepted:partial-skip-cell",
                    "Poseidon partial-round gate accepts a forged skipped-row cell with consistently recomputed later cells and outputs",
                    json!({"inputs": hexes(&inputs), "row": r, "skipped_row": i, "delta": fe_hex(&delta)}),
                );
            }
        }
        // control: the same recomputation without any change must be accepted (otherwise the
        // forgery test above is vacuous)
        {
            let mut s = [st[0], st[1], st[2]];
            let mut cells = vec![];
            for t in 0..=skips {
                let mut y = s;
                y[W - 1] = y[W - 1].square().square() * y[W - 1];
                let mut nx = rc[round0 + t + 1];
                for a in 0..W {
                    for c in 0..W {
                        nx[a] += mds[a][c] * y[c];
                    }
                }
                s = nx;
                if t < skips {
                    cells.push((W + t, r, s[W - 1]));
                }
            }
            for a in 0..W {
                cells.push((a, r + 1, s[a]));
            }
            ctx.count("forge:poseidon:partial-control");
            if !tamper_accepts_at(&mut prover, &cells, 0, Some(vec![r])) {
                ctx.oracle_fail(
                    "poseidon:partial-row-not-raw-rounds",
                    "the cells of a partial-round row are not the values of the raw partial rounds (honest recomputation rejected)",
                    json!({"inputs": hexes(&inputs), "row": r}),
                );
            }
        }
    }
}

pub fn run(ctx: &mut Ctx) {
    run_perm(ctx);
    run_hash(ctx);
    run_sponge(ctx);
    run_trace(ctx);
    run_varlen(ctx);
    run_tamper(ctx);
    run_forge(ctx);
}
