//! RIPEMD-160 chip wiring (`circuits/src/hash/ripemd160/ripemd160_chip.rs`): (1) dump of the REAL
//! constraint system of `RipeMD160Chip::configure` (gate polynomials incl. the fixed-column queries
//! of the left-rotation gate, the two plain-spreaded lookups) for `translators/c07_rmdgates.py`;
//! (2) the region-relative synthesis trace of the real chip, one line per chip region (selectors,
//! ALL fixed cells with values — tags and rotation coefficients —, advice cells, copy constraints
//! incl. the `assert_equal` of `prepare_spreaded`), compared with the Lean emitter
//! `MidnightZK.C07.ChipR.emit`; (3) the honest witness of every region for the model's `Sat`;
//! (4) the rows of the loaded plain-spreaded table.
use ff::PrimeField;
use midnight_circuits::{hash::ripemd160::RipeMD160Chip, types::AssignedByte};
use midnight_proofs::plonk::{Circuit, ConstraintSystem};
use mzkh::{fe_hex, Ctx};
use serde_json::{json, Value};

use crate::{
    circuits::{HashCircuit, F},
    shachip::{expr_json, record_circuit, ShaTrace},
};

type RmdCircuit = HashCircuit<AssignedByte<F>, [AssignedByte<F>; 20], RipeMD160Chip<F>>;

/// Gate names of `RipeMD160Chip::configure` and the short names used in the trace lines.
pub const RMD_GATES: [(&str, &str); 6] = [
    ("11-11-10 decomposition", "d11"),
    ("spreaded sum with even output", "sumEvn"),
    ("spreaded sum with odd output", "sumOdd"),
    ("left rotation", "rot"),
    ("addition", "add"),
    ("addition mod 2^32", "modadd"),
];

/// Region names of `ripemd160_chip.rs` and the short kinds used in the trace lines.
pub const RMD_REGIONS: [(&str, &str); 6] = [
    ("Assign prepare_spreaded", "prepspr"),
    ("Assign AND", "and"),
    ("Assign f_type_one", "f1"),
    ("Assign f_type_two", "f2"),
    ("Assign left rotation", "rotl"),
    ("Assign add_mod_2_32", "addmod"),
];

/// `h-c07 --dump-rmd-gates FILE`.
pub fn dump_gates(path: &str) {
    let mut cs = ConstraintSystem::<F>::default();
    let _ = <RmdCircuit as Circuit<F>>::configure(&mut cs);
    let gates: Vec<Value> = cs
        .gates()
        .iter()
        .filter(|g| RMD_GATES.iter().any(|(n, _)| *n == g.name()))
        .map(|g| {
            json!({
                "name": g.name(),
                "short": RMD_GATES.iter().find(|(n, _)| *n == g.name()).unwrap().1,
                "polys": g.polynomials().iter().map(expr_json).collect::<Vec<_>>(),
            })
        })
        .collect();
    let lookups: Vec<Value> = cs
        .lookups()
        .iter()
        .filter(|l| l.name() == "plain-spreaded lookup")
        .map(|l| {
            json!({
                "inputs": l.input_expressions().iter().map(expr_json).collect::<Vec<_>>(),
                "table": l.table_expressions().iter().map(expr_json).collect::<Vec<_>>(),
            })
        })
        .collect();
    let out = json!({
        "modulus": F::MODULUS.to_string(),
        "num_advice": cs.num_advice_columns(),
        "num_fixed": cs.num_fixed_columns(),
        "gates": gates,
        "lookups": lookups,
    });
    std::fs::write(path, serde_json::to_vec_pretty(&out).unwrap()).unwrap();
}

/// Synthesises the real stand-alone RIPEMD-160 circuit on `msg` with the recording backend.
/// External cells are numbered in creation order (block words of a block, then the outputs of the
/// `linear_combination` calls of `f_type_three` of that block).
pub fn record(msg: &[u8]) -> ShaTrace {
    record_circuit(&RmdCircuit::new(msg.to_vec()), &RMD_GATES, &RMD_REGIONS, true)
}

/// The loaded plain-spreaded table, one line per tag.
fn emit_table(ctx: &mut Ctx, table: &[Vec<F>]) {
    let mut by_tag: Vec<(String, Vec<String>)> = vec![];
    for row in table {
        if row.len() != 3 {
            ctx.oracle_fail("rmd160:spread-table-shape", "the spread table does not have three columns", json!({"row_len": row.len()}));
            return;
        }
        let tag = fe_hex(&row[0]);
        let item = format!("{}:{}", fe_hex(&row[1]), fe_hex(&row[2]));
        match by_tag.last_mut() {
            Some((t0, v)) if *t0 == tag => v.push(item),
            _ => by_tag.push((tag, vec![item])),
        }
    }
    ctx.case("rmd160:spread-table:tags", true, "rmdspreadtags", &by_tag.iter().map(|(t, v)| format!("{t}:{}", v.len())).collect::<Vec<_>>().join(","));
    for (n, (tag, rows)) in by_tag.iter().enumerate() {
        ctx.case("rmd160:spread-table:rows", true, &format!("rmdspreadtable {n} {tag}"), &rows.join(","));
    }
}

/// Targeted tamper sweep (failing-input search): every advice cell of the regions of the first
/// round (both lines), of one round of every `f` type and of the final state addition is changed by
/// `+1`; the real constraint system must reject.
fn run_search(ctx: &mut Ctx) {
    use crate::circuits::{cell_value, mock_run, tamper_accepts, Mock};
    let msg: Vec<u8> = (0..5u8).map(|j| j.wrapping_mul(29).wrapping_add(3)).collect();
    let t = match mzkh::catch(|| record(&msg)) {
        Ok(t) => t,
        Err(_) => return,
    };
    let circuit = RmdCircuit::new(msg.clone());
    let Mock::Ran { mut prover, ok: true, .. } = mock_run(&circuit, 14) else { return };
    let n = t.regions.len();
    let mut picked: Vec<usize> = vec![];
    picked.extend(0..28.min(n)); // round 0: f1 left (8 regions), f3 right (12 regions), +
    picked.extend((n.saturating_sub(5)..n).filter(|k| *k >= 28)); // the state addition
    // one region of every kind further inside
    for kind in ["f2", "and", "rotl"] {
        if let Some(k) = t.regions.iter().position(|l| l.starts_with(kind)) {
            if !picked.contains(&k) {
                picked.push(k);
            }
        }
    }
    for k in picked {
        let kind = t.regions[k].split(' ').next().unwrap_or("?").to_string();
        for &(c, r) in &t.cells_abs[k] {
            let Some(v) = cell_value(&prover, c, r) else { continue };
            ctx.count("search:rmd160:tamper:plus1");
            let nv = v + F::from(1u64);
            if tamper_accepts(&mut prover, &[(c, r, nv)], 3) {
                ctx.oracle_fail(
                    &format!("rmd160:wiring:unconstrained-cell:{kind}:col={c}"),
                    "RIPEMD-160 circuit accepts a modified advice cell of a chip region (cell not bound by gate, lookup or copy constraint)",
                    json!({"message": crate::bytes::hex(&msg), "chip_region": k, "kind": kind, "column": c, "row": r,
                           "honest": fe_hex(&v), "forged": fe_hex(&nv), "change": "plus1"}),
                );
            }
        }
    }
}

pub fn run(ctx: &mut Ctx) {
    if ctx.search() {
        run_search(ctx);
    }
    let plan: &[(usize, &[usize])] = if ctx.quick() { &[(1, &[3, 55]), (2, &[56])] } else { &[(1, &[3, 0, 55]), (2, &[64, 56, 119]), (3, &[120])] };
    let mut table_done = false;
    for (nblocks, lens) in plan {
        for (i, &len) in lens.iter().enumerate() {
            let msg: Vec<u8> = (0..len).map(|j| (j * 11 + 5) as u8).collect();
            let t = match mzkh::catch(|| record(&msg)) {
                Ok(t) => t,
                Err(e) => {
                    ctx.oracle_fail(&format!("rmd160:trace:synthesis-failed:len={len}"), "RIPEMD-160 circuit cannot be synthesised with the recording backend", json!({"len": len, "error": e}));
                    continue;
                }
            };
            ctx.case("rmd160:trace:shape", true, &format!("rmdshape {nblocks}"), &format!("regions={} externals={} outputs={}", t.regions.len(), t.externals, t.outputs.join(",")));
            for (k, line) in t.regions.iter().enumerate() {
                if i == 0 || k % 5 == i % 5 || k < 60 || k + 60 >= t.regions.len() {
                    ctx.case(&format!("rmd160:trace:region:{}", line.split(' ').next().unwrap_or("?")), true, &format!("rmdregion {nblocks} {k}"), line);
                }
            }
            ctx.count_n("rmd160:trace:regions-recorded", t.regions.len() as u64);
            if i == 0 && (*nblocks == 1 || !ctx.quick()) {
                for (k, w) in t.witness.iter().enumerate() {
                    ctx.case("rmd160:trace:honest-witness-sat", true, &format!("rmdsat {nblocks} {k} {w}"), "ok");
                }
            }
            if !table_done {
                table_done = true;
                emit_table(ctx, &t.table);
            }
        }
    }
}
