//! Stand-alone circuits around the real hash chips/gadgets (`FromScratch`), capturing the digest
//! the circuit computes, and the MockProver plumbing (k search, verdict, tamper helpers).
use std::{cell::RefCell, marker::PhantomData};

use midnight_circuits::{
    field::{decomposition::chip::P2RDecompositionChip, NativeChip, NativeGadget},
    instructions::{
        hash::VarHashInstructions, AssignmentInstructions, HashInstructions, SpongeInstructions,
    },
    testing_utils::FromScratch,
    types::{AssignedNative, AssignedVector, InnerValue, Vectorizable},
    vec::vector_gadget::VectorGadget,
    instructions::VectorInstructions,
};
use midnight_proofs::{
    circuit::{Layouter, SimpleFloorPlanner, Value},
    dev::{CellValue, MockProver},
    plonk::{Circuit, ConstraintSystem, Error},
};
use mzkh::catch;

pub type F = midnight_curves::Fq;
pub type NG = NativeGadget<F, P2RDecompositionChip<F>, NativeChip<F>>;

/// Fixed-length hash circuit: assign the inputs as witnesses, hash, remember the digest value.
pub struct HashCircuit<In: InnerValue, Out: InnerValue, H> {
    pub input: Vec<In::Element>,
    pub out: RefCell<Option<Out::Element>>,
    _m: PhantomData<H>,
}

impl<In: InnerValue, Out: InnerValue, H> HashCircuit<In, Out, H> {
    pub fn new(input: Vec<In::Element>) -> Self {
        HashCircuit { input, out: RefCell::new(None), _m: PhantomData }
    }
}

impl<In, Out, H> Circuit<F> for HashCircuit<In, Out, H>
where
    In: InnerValue,
    Out: InnerValue,
    H: HashInstructions<F, In, Out> + FromScratch<F>,
    NG: AssignmentInstructions<F, In>,
{
    type Config = (<H as FromScratch<F>>::Config, <NG as FromScratch<F>>::Config);
    type FloorPlanner = SimpleFloorPlanner;
    type Params = ();

    fn without_witnesses(&self) -> Self {
        unreachable!()
    }

    fn configure(meta: &mut ConstraintSystem<F>) -> Self::Config {
        let ci = meta.instance_column();
        let i = meta.instance_column();
        (H::configure_from_scratch(meta, &[ci, i]), NG::configure_from_scratch(meta, &[ci, i]))
    }

    fn synthesize(&self, config: Self::Config, mut layouter: impl Layouter<F>) -> Result<(), Error> {
        let chip = H::new_from_scratch(&config.0);
        let ng = NG::new_from_scratch(&config.1);
        let vals: Vec<Value<In::Element>> = self.input.iter().cloned().map(Value::known).collect();
        let inputs = ng.assign_many(&mut layouter, &vals)?;
        let output = chip.hash(&mut layouter, &inputs)?;
        output.value().map(|v| *self.out.borrow_mut() = Some(v));
        chip.load_from_scratch(&mut layouter)?;
        ng.load_from_scratch(&mut layouter)
    }
}

/// Variable-length hash circuit: the payload is placed in an `AssignedVector<_, M, A>` whose
/// unused cells hold `filler`.
pub struct VarHashCircuit<In: Vectorizable, Out: InnerValue, H, const M: usize, const A: usize> {
    pub data: Vec<In::Element>,
    pub filler: In::Element,
    pub out: RefCell<Option<Out::Element>>,
    _m: PhantomData<H>,
}

impl<In: Vectorizable, Out: InnerValue, H, const M: usize, const A: usize> VarHashCircuit<In, Out, H, M, A> {
    pub fn new(data: Vec<In::Element>, filler: In::Element) -> Self {
        VarHashCircuit { data, filler, out: RefCell::new(None), _m: PhantomData }
    }
}

impl<In, Out, H, const M: usize, const A: usize> Circuit<F> for VarHashCircuit<In, Out, H, M, A>
where
    In: Vectorizable,
    In::Element: Copy,
    Out: InnerValue,
    H: VarHashInstructions<F, M, In, Out, A> + FromScratch<F>,
    VectorGadget<F>: VectorInstructions<F, In, M, A>,
{
    type Config = (<H as FromScratch<F>>::Config, <VectorGadget<F> as FromScratch<F>>::Config);
    type FloorPlanner = SimpleFloorPlanner;
    type Params = ();

    fn without_witnesses(&self) -> Self {
        unreachable!()
    }

    fn configure(meta: &mut ConstraintSystem<F>) -> Self::Config {
        let ci = meta.instance_column();
        let i = meta.instance_column();
        (H::configure_from_scratch(meta, &[ci, i]), VectorGadget::configure_from_scratch(meta, &[ci, i]))
    }

    fn synthesize(&self, config: Self::Config, mut layouter: impl Layouter<F>) -> Result<(), Error> {
        let chip = H::new_from_scratch(&config.0);
        let vg = <VectorGadget<F> as FromScratch<F>>::new_from_scratch(&config.1);
        let v: AssignedVector<F, In, M, A> =
            vg.assign_with_filler(&mut layouter, Value::known(self.data.clone()), Some(self.filler))?;
        let output = chip.varhash(&mut layouter, &v)?;
        output.value().map(|v| *self.out.borrow_mut() = Some(v));
        chip.load_from_scratch(&mut layouter)?;
        vg.load_from_scratch(&mut layouter)
    }
}

/// Sponge script step.
#[derive(Clone, Debug)]
pub enum Step {
    Absorb(Vec<F>),
    Squeeze,
}

/// Sponge circuit: `init(input_len)`, then the script; remembers every squeezed value.
pub struct SpongeCircuit<S> {
    pub input_len: Option<usize>,
    pub script: Vec<Step>,
    pub outs: RefCell<Vec<F>>,
    _m: PhantomData<S>,
}

impl<S> SpongeCircuit<S> {
    pub fn new(input_len: Option<usize>, script: Vec<Step>) -> Self {
        SpongeCircuit { input_len, script, outs: RefCell::new(vec![]), _m: PhantomData }
    }
}

impl<S> Circuit<F> for SpongeCircuit<S>
where
    S: SpongeInstructions<F, AssignedNative<F>, AssignedNative<F>> + FromScratch<F>,
{
    type Config = (<S as FromScratch<F>>::Config, <NG as FromScratch<F>>::Config);
    type FloorPlanner = SimpleFloorPlanner;
    type Params = ();

    fn without_witnesses(&self) -> Self {
        unreachable!()
    }

    fn configure(meta: &mut ConstraintSystem<F>) -> Self::Config {
        let ci = meta.instance_column();
        let i = meta.instance_column();
        (S::configure_from_scratch(meta, &[ci, i]), NG::configure_from_scratch(meta, &[ci, i]))
    }

    fn synthesize(&self, config: Self::Config, mut layouter: impl Layouter<F>) -> Result<(), Error> {
        let chip = S::new_from_scratch(&config.0);
        let ng = NG::new_from_scratch(&config.1);
        self.outs.borrow_mut().clear();
        let mut state = chip.init(&mut layouter, self.input_len)?;
        for step in &self.script {
            match step {
                Step::Absorb(v) => {
                    let vals: Vec<Value<F>> = v.iter().cloned().map(Value::known).collect();
                    let a: Vec<AssignedNative<F>> = ng.assign_many(&mut layouter, &vals)?;
                    chip.absorb(&mut layouter, &mut state, &a)?;
                }
                Step::Squeeze => {
                    let o = chip.squeeze(&mut layouter, &mut state)?;
                    o.value().map(|v| self.outs.borrow_mut().push(*v));
                }
            }
        }
        chip.load_from_scratch(&mut layouter)?;
        ng.load_from_scratch(&mut layouter)
    }
}

/// Outcome of a MockProver run on an honest witness.
pub enum Mock {
    /// Synthesis succeeded at this `k`; `ok` = `verify()` accepted.
    Ran { k: u32, ok: bool, prover: Box<MockProver<F>>, failures: String },
    /// Synthesis returned an error (other than not-enough-rows) or panicked.
    Failed(String),
}

/// Run the real MockProver, looking for the smallest `k ≥ k0` that has enough rows.
pub fn mock_run<C: Circuit<F>>(circuit: &C, k0: u32) -> Mock {
    for k in k0..=k0 + 8 {
        let r = catch(|| MockProver::run(k, circuit, vec![vec![], vec![]]));
        match r {
            Err(p) => {
                // the pow2range / spread tables panic when they do not fit
                if k < k0 + 8 && (p.contains("not enough") || p.contains("NotEnoughRows") || p.contains("usable_rows") || p.contains("k =")) {
                    continue;
                }
                return Mock::Failed(format!("panic: {p}"));
            }
            Ok(Err(Error::NotEnoughRowsAvailable { .. })) => continue,
            Ok(Err(e)) => {
                let s = format!("{e:?}");
                if s.contains("NotEnoughRows") || s.contains("TableError") || s.contains("not enough") {
                    continue;
                }
                return Mock::Failed(format!("error: {s}"));
            }
            Ok(Ok(prover)) => {
                let v = catch(|| prover.verify());
                return match v {
                    Ok(Ok(())) => Mock::Ran { k, ok: true, prover: Box::new(prover), failures: String::new() },
                    Ok(Err(fs)) => {
                        let s = fs.iter().take(3).map(|f| format!("{f:?}")).collect::<Vec<_>>().join(" | ");
                        Mock::Ran { k, ok: false, prover: Box::new(prover), failures: s }
                    }
                    Err(p) => Mock::Failed(format!("verify panic: {p}")),
                };
            }
        }
    }
    Mock::Failed("no k with enough rows".into())
}

/// Assigned advice cells `(column, row)` of a prover, in column-major order.
pub fn assigned_cells(prover: &MockProver<F>) -> Vec<(usize, usize)> {
    let mut v = vec![];
    for (c, col) in prover.advice().iter().enumerate() {
        for (r, cell) in col.iter().enumerate() {
            if matches!(cell, CellValue::Assigned(_)) {
                v.push((c, r));
            }
        }
    }
    v
}

pub fn cell_value(prover: &MockProver<F>, c: usize, r: usize) -> Option<F> {
    match prover.advice()[c][r] {
        CellValue::Assigned(v) => Some(v),
        _ => None,
    }
}

/// Overwrite one advice cell (H2), run `verify_at_rows` on the rows around it plus the full
/// permutation check, restore the cell. Returns whether the tampered table was ACCEPTED.
pub fn tamper_accepts(prover: &mut MockProver<F>, cells: &[(usize, usize, F)], radius: usize) -> bool {
    tamper_accepts_at(prover, cells, radius, None)
}

/// Same, but when `only_rows` is given the gates and lookups are checked at exactly these rows
/// (local acceptance of a forged row; the permutation argument is still checked globally).
pub fn tamper_accepts_at(prover: &mut MockProver<F>, cells: &[(usize, usize, F)], radius: usize, only_rows: Option<Vec<usize>>) -> bool {
    let mut saved = vec![];
    for (c, r, v) in cells {
        saved.push((*c, *r, prover.advice()[*c][*r].clone()));
        prover.verif_advice_mut()[*c][*r] = CellValue::Assigned(*v);
    }
    let usable = prover.usable_rows().clone();
    let mut rows: Vec<usize> = vec![];
    for (_, r, _) in cells {
        let lo = r.saturating_sub(radius);
        let hi = (*r + radius).min(usable.end - 1);
        for x in lo..=hi {
            if usable.contains(&x) && !rows.contains(&x) {
                rows.push(x);
            }
        }
    }
    let rows = only_rows.unwrap_or(rows);
    let res = catch(|| prover.verify_at_rows(rows.clone().into_iter(), rows.clone().into_iter()));
    for (c, r, old) in saved {
        prover.verif_advice_mut()[c][r] = old;
    }
    matches!(res, Ok(Ok(())))
}
