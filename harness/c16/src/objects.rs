//! Honest objects (relations, keys, proofs, parameters) whose encodings the sweeps mutate.
use std::cmp::max;

use midnight_circuits::{
    ecc::{foreign::nb_foreign_ecc_chip_columns, native::NB_EDWARDS_COLS},
    field::{
        foreign::{nb_field_chip_columns, params::MultiEmulationParams as MEP},
        native::{NB_ARITH_COLS, NB_ARITH_FIXED_COLS},
    },
    hash::{
        poseidon::{PoseidonChip, NB_POSEIDON_ADVICE_COLS, NB_POSEIDON_FIXED_COLS},
        sha256::{NB_SHA256_ADVICE_COLS, NB_SHA256_FIXED_COLS},
        sha512::{NB_SHA512_ADVICE_COLS, NB_SHA512_FIXED_COLS},
    },
    instructions::{hash::HashCPU, ArithInstructions, AssignmentInstructions, PublicInputInstructions},
    parsing::{automaton_chip::NB_AUTOMATA_COLS, NB_BASE64_ADVICE_COLS},
};
use midnight_curves::k256::{self as k256_mod, K256};
use midnight_proofs::{
    circuit::{Layouter, Value},
    plonk::{ConstraintSystem, Error},
    poly::kzg::params::{ParamsKZG, ParamsVerifierKZG},
    utils::SerdeFormat,
};
use midnight_zk_stdlib::{MidnightCircuit, MidnightPK, MidnightVK, Relation, ZkStdLib, ZkStdLibArch};
use rand_chacha::ChaCha8Rng;
use rand_core::SeedableRng;

use crate::{Run, F, FORMATS};

pub type Bls = midnight_curves::Bls12;
pub type H = blake2b_simd::State;

/// Relation A: default architecture, one multiplication, one public input.
#[derive(Clone, Default)]
pub struct RelA;

impl Relation for RelA {
    type Instance = F;
    type Witness = (F, F);
    fn format_instance(instance: &Self::Instance) -> Result<Vec<F>, Error> {
        Ok(vec![*instance])
    }
    fn circuit(
        &self,
        std_lib: &ZkStdLib,
        layouter: &mut impl Layouter<F>,
        _instance: Value<Self::Instance>,
        witness: Value<Self::Witness>,
    ) -> Result<(), Error> {
        let (a, b) = witness.unzip();
        let x = std_lib.assign(layouter, a)?;
        let y = std_lib.assign(layouter, b)?;
        let z = std_lib.mul(layouter, &x, &y, None)?;
        std_lib.constrain_as_public_input(layouter, &z)
    }
    fn write_relation<W: std::io::Write>(&self, _writer: &mut W) -> std::io::Result<()> {
        Ok(())
    }
    fn read_relation<R: std::io::Read>(_reader: &mut R) -> std::io::Result<Self> {
        Ok(RelA)
    }
}

/// Relation B: Poseidon architecture with two pow2range columns, one public input.
#[derive(Clone, Default)]
pub struct RelB;

impl Relation for RelB {
    type Instance = F;
    type Witness = [F; 3];
    fn format_instance(instance: &Self::Instance) -> Result<Vec<F>, Error> {
        Ok(vec![*instance])
    }
    fn circuit(
        &self,
        std_lib: &ZkStdLib,
        layouter: &mut impl Layouter<F>,
        _instance: Value<Self::Instance>,
        witness: Value<Self::Witness>,
    ) -> Result<(), Error> {
        let m = std_lib.assign_many(layouter, &witness.transpose_array())?;
        let out = std_lib.poseidon(layouter, &m)?;
        std_lib.constrain_as_public_input(layouter, &out)
    }
    fn used_chips(&self) -> ZkStdLibArch {
        ZkStdLibArch { poseidon: true, nr_pow2range_cols: 2, ..ZkStdLibArch::default() }
    }
    fn write_relation<W: std::io::Write>(&self, _writer: &mut W) -> std::io::Result<()> {
        Ok(())
    }
    fn read_relation<R: std::io::Read>(_reader: &mut R) -> std::io::Result<Self> {
        Ok(RelB)
    }
}

/// One relation's honest key material and proof.
pub struct KeySet {
    pub name: &'static str,
    pub vk: MidnightVK,
    /// `MidnightVK::write` in the formats of `FORMATS`.
    pub vk_bytes: [Vec<u8>; 2],
    /// `MidnightPK::write` in the formats of `FORMATS`.
    pub pk_bytes: [Vec<u8>; 2],
    pub proof: Vec<u8>,
    pub instance: F,
    pub k: u32,
}

pub struct Objects {
    pub srs: ParamsKZG<Bls>,
    pub vp: ParamsVerifierKZG<Bls>,
    pub vp_bytes: [Vec<u8>; 2],
    pub a: KeySet,
    pub b: KeySet,
}

fn keyset<R: Relation<Instance = F>>(
    name: &'static str,
    srs: &ParamsKZG<Bls>,
    rel: &R,
    instance: F,
    witness: R::Witness,
    k: u32,
) -> KeySet {
    let vk = midnight_zk_stdlib::setup_vk(srs, rel);
    let pk = midnight_zk_stdlib::setup_pk(rel, &vk);
    let proof = midnight_zk_stdlib::prove::<R, H>(srs, &pk, rel, &instance, witness, ChaCha8Rng::seed_from_u64(0xC16))
        .expect("honest proof");
    let ser_vk = |f: SerdeFormat| {
        let mut b = vec![];
        vk.write(&mut b, f).unwrap();
        b
    };
    let ser_pk = |f: SerdeFormat| {
        let mut b = vec![];
        pk.write(&mut b, f).unwrap();
        b
    };
    KeySet {
        name,
        vk_bytes: [ser_vk(FORMATS[0].0), ser_vk(FORMATS[1].0)],
        pk_bytes: [ser_pk(FORMATS[0].0), ser_pk(FORMATS[1].0)],
        vk,
        proof,
        instance,
        k,
    }
}

impl Objects {
    pub fn build(run: &mut Run) -> Objects {
        let ka = MidnightCircuit::from_relation(&RelA).min_k();
        let kb = MidnightCircuit::from_relation(&RelB).min_k();
        // The structured reference string is deterministic and independent of the run seed: the
        // honest objects are fixed, the seed drives the mutations.
        let srs_b = ParamsKZG::<Bls>::unsafe_setup(max(ka, kb), ChaCha8Rng::seed_from_u64(0x5125));
        let mut srs_a = srs_b.clone();
        srs_a.downsize(ka);
        let mut srs_bb = srs_b.clone();
        srs_bb.downsize(kb);
        let vp = srs_b.verifier_params();
        let a = keyset("A", &srs_a, &RelA, F::from(6), (F::from(2), F::from(3)), ka);
        let wb = [F::from(1), F::from(2), F::from(3)];
        let ib = <PoseidonChip<F> as HashCPU<F, F>>::hash(&wb);
        let b = keyset("B", &srs_bb, &RelB, ib, wb, kb);
        let ser_vp = |f: SerdeFormat| {
            let mut v = vec![];
            vp.write(&mut v, f).unwrap();
            v
        };
        let o = Objects { vp_bytes: [ser_vp(FORMATS[0].0), ser_vp(FORMATS[1].0)], srs: srs_a, vp, a, b };
        // completeness sanity of the fixed objects (an honest proof must verify)
        for (n, r) in [("A", o.verify_a(&o.a.vk, &o.a.proof)), ("B", o.verify_b(&o.b.vk, &o.b.proof))] {
            if r.is_err() {
                run.ctx.oracle_fail(
                    &format!("honest-proof-rejected:{n}"),
                    "the fixed honest proof of the harness does not verify",
                    serde_json::json!({"relation": n, "error": format!("{r:?}")}),
                );
            }
        }
        run.ctx.set_extra(
            "objects",
            serde_json::json!({
                "A": {"k": o.a.k, "vk_len": [o.a.vk_bytes[0].len(), o.a.vk_bytes[1].len()], "proof_len": o.a.proof.len(), "pk_len": [o.a.pk_bytes[0].len(), o.a.pk_bytes[1].len()]},
                "B": {"k": o.b.k, "vk_len": [o.b.vk_bytes[0].len(), o.b.vk_bytes[1].len()], "proof_len": o.b.proof.len(), "pk_len": [o.b.pk_bytes[0].len(), o.b.pk_bytes[1].len()]},
            }),
        );
        o
    }

    pub fn verify_a(&self, vk: &MidnightVK, proof: &[u8]) -> Result<(), Error> {
        midnight_zk_stdlib::verify::<RelA, H>(&self.vp, vk, &self.a.instance, None, proof)
    }
    pub fn verify_b(&self, vk: &MidnightVK, proof: &[u8]) -> Result<(), Error> {
        midnight_zk_stdlib::verify::<RelB, H>(&self.vp, vk, &self.b.instance, None, proof)
    }
    pub fn read_pk_a(bytes: &[u8], f: SerdeFormat) -> std::io::Result<MidnightPK<RelA>> {
        MidnightPK::<RelA>::read(&mut &bytes[..], f)
    }
}

/// `(num_fixed_columns + num_selectors, permutation columns, degree)` of the constraint system
/// `ZkStdLib::configure` builds for `arch`.
pub fn shape_of_arch(arch: ZkStdLibArch) -> (usize, usize, usize) {
    let mut cs = ConstraintSystem::<F>::default();
    let _ = ZkStdLib::configure(&mut cs, arch);
    (cs.num_fixed_columns() + cs.num_selectors(), cs.permutation().get_columns().len(), cs.degree())
}

/// Values of the column-count constants, in the order of `Gen.colConstNames` (read from the
/// generated Lean file so that harness and model agree on the order).
pub fn col_consts() -> String {
    let gen = std::fs::read_to_string(concat!(env!("CARGO_MANIFEST_DIR"), "/../../lean/MidnightZK/Gen/C16Consts.lean"))
        .expect("Gen/C16Consts.lean");
    let line = gen.lines().find(|l| l.starts_with("def colConstNames")).expect("colConstNames");
    let names: Vec<&str> = line.split('"').skip(1).step_by(2).collect();
    let secp = max(
        nb_field_chip_columns::<F, k256_mod::Fq, MEP>(),
        nb_foreign_ecc_chip_columns::<F, K256, MEP, k256_mod::Fq>(),
    );
    let bls = max(
        nb_field_chip_columns::<F, midnight_curves::Fp, MEP>(),
        nb_foreign_ecc_chip_columns::<F, midnight_curves::G1Projective, MEP, midnight_curves::Fp>(),
    );
    let vals: Vec<usize> = names
        .iter()
        .map(|n| match *n {
            "NB_ARITH_COLS" => NB_ARITH_COLS,
            "NB_ARITH_FIXED_COLS" => NB_ARITH_FIXED_COLS,
            "NB_EDWARDS_COLS" => NB_EDWARDS_COLS,
            "NB_POSEIDON_ADVICE_COLS" => NB_POSEIDON_ADVICE_COLS,
            "NB_POSEIDON_FIXED_COLS" => NB_POSEIDON_FIXED_COLS,
            "NB_SHA256_ADVICE_COLS" => NB_SHA256_ADVICE_COLS,
            "NB_SHA256_FIXED_COLS" => NB_SHA256_FIXED_COLS,
            "NB_SHA512_ADVICE_COLS" => NB_SHA512_ADVICE_COLS,
            "NB_SHA512_FIXED_COLS" => NB_SHA512_FIXED_COLS,
            "NB_SECP256K1_COLS" => secp,
            "NB_BLS12_381_COLS" => bls,
            "NB_BASE64_ADVICE_COLS" => NB_BASE64_ADVICE_COLS,
            "NB_AUTOMATA_COLS" => NB_AUTOMATA_COLS,
            "PACKED_ADVICE_COLS" => keccak_sha3::packed_chip::PACKED_ADVICE_COLS,
            "PACKED_FIXED_COLS" => keccak_sha3::packed_chip::PACKED_FIXED_COLS,
            "NB_BLAKE2B_ADVICE_COLS" => blake2b::blake2b::NB_BLAKE2B_ADVICE_COLS,
            other => panic!("column constant {other} of Gen/C16Consts.lean is unknown to the harness"),
        })
        .collect();
    mzkh::join(&vals)
}
