//! Counting global allocator: tracks live bytes and the peak since the last `measure` start.
use std::alloc::{GlobalAlloc, Layout, System};
use std::sync::atomic::{AtomicUsize, Ordering::Relaxed};

/// Oracle: a decoder may allocate at most `ALLOC_C * input_len + c0` bytes at its peak.
pub const ALLOC_C: usize = 64;

pub struct Counting;

static CUR: AtomicUsize = AtomicUsize::new(0);
static PEAK: AtomicUsize = AtomicUsize::new(0);
/// Live-byte cap (child processes only): an allocation that would exceed it FAILS (null), which
/// makes Rust abort the process with "memory allocation of N bytes failed" — the parent attributes
/// the abort to the input being processed. `usize::MAX` = no cap.
static CAP: AtomicUsize = AtomicUsize::new(usize::MAX);

pub fn set_cap(n: usize) {
    CAP.store(n, Relaxed);
}

#[inline]
fn over_cap(extra: usize) -> bool {
    let cap = CAP.load(Relaxed);
    cap != usize::MAX && CUR.load(Relaxed).saturating_add(extra) > cap
}

#[inline]
fn add(n: usize) {
    let c = CUR.fetch_add(n, Relaxed) + n;
    PEAK.fetch_max(c, Relaxed);
}

unsafe impl GlobalAlloc for Counting {
    unsafe fn alloc(&self, l: Layout) -> *mut u8 {
        if over_cap(l.size()) {
            return std::ptr::null_mut();
        }
        let p = System.alloc(l);
        if !p.is_null() {
            add(l.size());
        }
        p
    }
    unsafe fn alloc_zeroed(&self, l: Layout) -> *mut u8 {
        if over_cap(l.size()) {
            return std::ptr::null_mut();
        }
        let p = System.alloc_zeroed(l);
        if !p.is_null() {
            add(l.size());
        }
        p
    }
    unsafe fn dealloc(&self, p: *mut u8, l: Layout) {
        System.dealloc(p, l);
        CUR.fetch_sub(l.size(), Relaxed);
    }
    unsafe fn realloc(&self, p: *mut u8, l: Layout, new: usize) -> *mut u8 {
        if new > l.size() && over_cap(new - l.size()) {
            return std::ptr::null_mut();
        }
        let q = System.realloc(p, l, new);
        if !q.is_null() {
            if new >= l.size() {
                add(new - l.size());
            } else {
                CUR.fetch_sub(l.size() - new, Relaxed);
            }
        }
        q
    }
}

#[global_allocator]
static GLOBAL: Counting = Counting;

/// Run `f`; return its value and the peak number of bytes allocated above the level at entry.
pub fn measure<T>(f: impl FnOnce() -> T) -> (T, usize) {
    let base = CUR.load(Relaxed);
    PEAK.store(base, Relaxed);
    let r = f();
    let peak = PEAK.load(Relaxed);
    (r, peak.saturating_sub(base))
}
