//! Sweeps over proofs, verifier parameters, ZKIR programs, and the prover-local objects
//! (proving keys, full parameter sets: exercised and reported only).
use std::collections::BTreeMap;

use group::Group;
use midnight_curves::{G1Projective, G2Affine, G2Projective};
use midnight_proofs::{
    plonk::{prepare, Error},
    poly::kzg::{
        params::{ParamsKZG, ParamsVerifierKZG},
        KZGCommitmentScheme,
    },
    transcript::Transcript,
    utils::{helpers::ProcessedSerdeObject, SerdeFormat},
};
use midnight_zk_stdlib::{MidnightPK, MidnightVK, Relation};
use midnight_zkir::{Instruction, IrType, Operation, ZkirRelation};
use mzkh::recording::{take_log, RecordingTranscript};
use rand::Rng;
use serde_json::json;

use crate::{
    g2_render, hex, io_class, mutate,
    objects::{Bls, KeySet, Objects, RelA, H},
    Run, F, FORMATS,
};

/// `(shape list, kinds string of the honest proof, number of PLONK-part elements)`.
struct ProofInfo {
    shape: String,
    total: usize,
    offsets: Vec<(usize, char)>,
}

fn shape_of(vk: &MidnightVK, nsets: usize) -> String {
    let cs = vk.vk().cs();
    let ninstq = cs.instance_queries().iter().filter(|(c, _)| c.index() < 1).count();
    mzkh::join(&[
        cs.num_advice_columns(),
        cs.lookups().len(),
        cs.trashcans().len(),
        cs.permutation().get_columns().len(),
        cs.degree(),
        ninstq,
        cs.advice_queries().len(),
        cs.fixed_queries().len(),
        nsets,
    ])
}

/// The verifier's own read sequence on `proof` (kinds of the elements it read successfully).
fn recorded_reads(vk: &MidnightVK, pi: &[F], proof: &[u8]) -> Result<(Vec<char>, Result<(), String>), String> {
    let _ = take_log();
    let r = mzkh::catch(|| {
        let mut t = RecordingTranscript::<H>::init_from_bytes(proof);
        let g = prepare::<F, KZGCommitmentScheme<Bls>, RecordingTranscript<H>>(
            vk.vk(),
            &[&[G1Projective::identity()]],
            &[&[pi]],
            &mut t,
        );
        match g {
            Err(e) => Err(format!("{e:?}")),
            Ok(_) => t.assert_empty().map_err(|e| format!("{e:?}")),
        }
    });
    let log = take_log();
    let kinds: Vec<char> =
        log.iter().filter(|e| e.kind == 'R').map(|e| if e.ty == "G" { 'P' } else { 'S' }).collect();
    match r {
        Ok(v) => Ok((kinds, v)),
        Err(p) => Err(p),
    }
}

fn proof_info(run: &mut Run, vk: &MidnightVK, ks: &KeySet) -> ProofInfo {
    let (kinds, _) = recorded_reads(vk, &[ks.instance], &ks.proof).expect("honest verification does not panic");
    // the opening part is: one point, one scalar per point set, one point
    let total = kinds.len();
    let mut nsets = 0;
    let mut i = total.saturating_sub(2);
    while i > 0 && kinds[i] == 'S' {
        nsets += 1;
        i -= 1;
    }
    let shape = shape_of(vk, nsets);
    let ks_str: String = kinds.iter().collect();
    run.case(
        "proofsched",
        true,
        &format!("proofsched {shape}"),
        &format!("{ks_str} len={} plonk={}", ks.proof.len(), total - 2 - nsets),
    );
    let mut offsets = vec![];
    let mut at = 0;
    for k in &kinds {
        offsets.push((at, *k));
        at += if *k == 'P' { 48 } else { 32 };
    }
    ProofInfo { shape, total, offsets }
}

/// One proof case: the public `verify` entry point (oracle) + the recorded read count.
#[allow(clippy::too_many_arguments)]
fn proof_case(run: &mut Run, o: &Objects, vk: &MidnightVK, is_a: bool, info: &ProofInfo, name: &str, proof: &[u8], kind: &str) {
    let r = run.guarded("verify", &format!("verify:{name}"), proof, 256 << 20, || {
        if is_a {
            o.verify_a(vk, proof)
        } else {
            o.verify_b(vk, proof)
        }
    });
    let inst = if is_a { o.a.instance } else { o.b.instance };
    let rec = recorded_reads(vk, &[inst], proof);
    let honest_len: usize = info.offsets.last().map(|(a, k)| a + if *k == 'P' { 48 } else { 32 }).unwrap_or(0);
    let ans = match (&r, &rec) {
        (None, _) | (_, Err(_)) => "panic".to_string(),
        (Some(res), Ok((kinds, _))) => {
            let n = kinds.len();
            let class = match res {
                Ok(()) => "parsed",
                Err(Error::Transcript(_)) => "transcript",
                Err(Error::Opening) => {
                    if n == info.total && proof.len() == honest_len {
                        "parsed"
                    } else {
                        "opening"
                    }
                }
                Err(_) => "other",
            };
            let v = match res {
                Ok(()) => "accept".to_string(),
                Err(e) => format!("reject:{}", format!("{e:?}").split(['(', ' ', '{']).next().unwrap_or("?")),
            };
            run.ctx.count(&format!("verify:{v}"));
            if matches!(res, Ok(())) && proof != &(if is_a { &o.a.proof } else { &o.b.proof })[..] {
                // not part of C16's statement (that is C03), but worth a loud counter
                run.ctx.count("verify:MUTANT-ACCEPTED");
            }
            format!("reads={n} {class}")
        }
    };
    run.case(
        &format!("proof-{name}:{kind}"),
        !ans.ends_with("reads=0 transcript"),
        &format!("proof {} {}", info.shape, hex(proof)),
        &ans,
    );
}

pub fn run_proofs(run: &mut Run, o: &Objects) {
    let mut rng = run.ctx.rng("proofs");
    let quick = run.ctx.quick();
    let ia = proof_info(run, &o.a.vk, &o.a);
    let ib = proof_info(run, &o.b.vk, &o.b);
    for (ks, is_a, info, other) in [(&o.a, true, &ia, &o.b), (&o.b, false, &ib, &o.a)] {
        let h = ks.proof.clone();
        let vk = &ks.vk;
        proof_case(run, o, vk, is_a, info, ks.name, &h, "honest");
        // every truncation point (relation B in the quick tier: element boundaries +-1)
        let bounds: Vec<usize> = info.offsets.iter().map(|(a, _)| *a).collect();
        for t in 0..h.len() {
            let near = bounds.iter().any(|b| t + 1 >= *b && t <= *b + 1);
            if is_a || !quick || near {
                proof_case(run, o, vk, is_a, info, ks.name, &h[..t], "truncate");
            }
        }
        // element-level mutations
        for (ei, (at, k)) in info.offsets.iter().enumerate() {
            let dense = !quick || ei % 7 == 0 || ei + 4 >= info.offsets.len();
            if *k == 'P' {
                if dense {
                    for fl in 0..8u8 {
                        proof_case(run, o, vk, is_a, info, ks.name, &mutate::subst_byte(&h, *at, (h[*at] & 0x1f) | (fl << 5)), "point-flags");
                    }
                    let mut inf = vec![0u8; 48];
                    inf[0] = 0xc0;
                    proof_case(run, o, vk, is_a, info, ks.name, &mutate::splice(&h, *at, &inf, 0, 48), "point-infinity");
                    // x = 5: on the curve? not in the subgroup
                    let mut small = vec![0u8; 48];
                    small[0] = 0x80;
                    small[47] = 5;
                    proof_case(run, o, vk, is_a, info, ks.name, &mutate::splice(&h, *at, &small, 0, 48), "point-small-x");
                }
                proof_case(run, o, vk, is_a, info, ks.name, &mutate::flip_bit_in(&h, *at, at + 48, &mut rng), "point-bitflip");
            } else {
                if dense {
                    let r_le: [u8; 32] = [
                        0x01, 0x00, 0x00, 0x00, 0xff, 0xff, 0xff, 0xff, 0xfe, 0x5b, 0xfe, 0xff, 0x02, 0xa4, 0xbd, 0x53, 0x05, 0xd8,
                        0xa1, 0x09, 0x08, 0xd8, 0x39, 0x33, 0x48, 0x7d, 0x9d, 0x29, 0x53, 0xa7, 0xed, 0x73,
                    ];
                    proof_case(run, o, vk, is_a, info, ks.name, &mutate::splice(&h, *at, &r_le, 0, 32), "scalar=r");
                    let mut rm1 = r_le;
                    rm1[0] = 0;
                    proof_case(run, o, vk, is_a, info, ks.name, &mutate::splice(&h, *at, &rm1, 0, 32), "scalar=r-1");
                    proof_case(run, o, vk, is_a, info, ks.name, &mutate::splice(&h, *at, &[0xffu8; 32], 0, 32), "scalar=ff");
                    proof_case(run, o, vk, is_a, info, ks.name, &mutate::splice(&h, *at, &[0u8; 32], 0, 32), "scalar=0");
                }
                proof_case(run, o, vk, is_a, info, ks.name, &mutate::flip_bit_in(&h, *at, at + 32, &mut rng), "scalar-bitflip");
                // top byte: all values that cross the modulus boundary
                if dense {
                    for v in [0x73u8, 0x74, 0x80, 0xff] {
                        proof_case(run, o, vk, is_a, info, ks.name, &mutate::subst_byte(&h, at + 31, v), "scalar-top-byte");
                    }
                }
            }
        }
        for _ in 0..(if quick { 40 } else { 1500 }) {
            proof_case(run, o, vk, is_a, info, ks.name, &mutate::flip_bit(&h, &mut rng), "bitflip");
        }
        for _ in 0..(if quick { 20 } else { 300 }) {
            let at = rng.gen_range(0..h.len());
            let from = rng.gen_range(0..other.proof.len());
            let len = rng.gen_range(1..200);
            proof_case(run, o, vk, is_a, info, ks.name, &mutate::splice(&h, at, &other.proof, from, len), "splice-other-proof");
            // two elements of the same proof exchanged
            let e1 = rng.gen_range(0..info.offsets.len());
            let e2 = rng.gen_range(0..info.offsets.len());
            if info.offsets[e1].1 == info.offsets[e2].1 {
                let sz = if info.offsets[e1].1 == 'P' { 48 } else { 32 };
                let m = mutate::splice(&h, info.offsets[e1].0, &h, info.offsets[e2].0, sz);
                let m = mutate::splice(&m, info.offsets[e2].0, &h, info.offsets[e1].0, sz);
                proof_case(run, o, vk, is_a, info, ks.name, &m, "swap-elements");
            }
        }
        for extra in [vec![0u8], vec![0u8; 32], mutate::random_bytes(100, &mut rng), h.clone()] {
            proof_case(run, o, vk, is_a, info, ks.name, &mutate::append(&h, &extra), "appended");
        }
        for _ in 0..(if quick { 10 } else { 200 }) {
            let n = rng.gen_range(0..2 * h.len());
            proof_case(run, o, vk, is_a, info, ks.name, &mutate::random_bytes(n, &mut rng), "random");
        }
        proof_case(run, o, vk, is_a, info, ks.name, &[], "empty");
        // proofs against the key of the other circuit: parsed against THIS key's shape
        proof_case(run, o, vk, is_a, info, ks.name, &other.proof, "other-circuit-proof");
        for t in (0..other.proof.len()).step_by(if quick { 97 } else { 7 }) {
            proof_case(run, o, vk, is_a, info, ks.name, &other.proof[..t], "other-circuit-proof-truncated");
        }
    }
}

/// Verifier parameters: one G2 point.
pub fn run_vparams(run: &mut Run, o: &Objects) {
    let mut rng = run.ctx.rng("vparams");
    let quick = run.ctx.quick();
    for fi in 0..2 {
        let (fmt, fs) = FORMATS[fi];
        let h = o.vp_bytes[fi].clone();
        let mut cases: Vec<(String, Vec<u8>)> = vec![("honest".into(), h.clone())];
        for t in 0..h.len() {
            cases.push(("truncate".into(), h[..t].to_vec()));
        }
        for v in 0..=255u8 {
            if !quick || v % 8 == 0 || v >= 0xe0 || (v & 0x1f) == (h[0] & 0x1f) {
                cases.push(("first-byte".into(), mutate::subst_byte(&h, 0, v)));
            }
        }
        for _ in 0..(if quick { 30 } else { 600 }) {
            cases.push(("bitflip".into(), mutate::flip_bit(&h, &mut rng)));
        }
        cases.push(("appended".into(), mutate::append(&h, &[1, 2, 3])));
        cases.push(("cross-format".into(), o.vp_bytes[1 - fi].clone()));
        cases.push(("g2-generator".into(), {
            use group::Curve;
            let mut w = vec![];
            G2Projective::generator().to_affine();
            <G2Projective as ProcessedSerdeObject>::write(&G2Projective::generator(), &mut w, fmt).unwrap();
            w
        }));
        for (kind, bytes) in cases {
            let r = run.guarded("vparams-read", &format!("vparams-read:{fs}"), &bytes, 1 << 20, || {
                let mut rd = &bytes[..];
                let r = ParamsVerifierKZG::<Bls>::read(&mut rd, fmt);
                (r, rd.len())
            });
            let ans = match r {
                None => "panic".to_string(),
                Some((Err(e), _)) => format!("err {}", io_class(&e)),
                Some((Ok(vp), rest)) => {
                    let mut w = vec![];
                    vp.write(&mut w, SerdeFormat::RawBytes).unwrap();
                    let p = <G2Projective as ProcessedSerdeObject>::read(&mut &w[..], SerdeFormat::RawBytes).unwrap();
                    // parameters that decoded: verifying the fixed proof with them returns a value
                    let vr = run.guarded("verify-with-decoded-params", &format!("verify-with-decoded-params:{fs}"), &bytes, 256 << 20, || {
                        midnight_zk_stdlib::verify::<RelA, H>(&vp, &o.a.vk, &o.a.instance, None, &o.a.proof)
                    });
                    run.ctx.count(&format!(
                        "verify-with-decoded-params:{}",
                        match vr {
                            None => "panic",
                            Some(Ok(())) => "accept",
                            Some(Err(_)) => "reject",
                        }
                    ));
                    format!("ok {} rest={rest}", g2_render(&G2Affine::from(p)))
                }
            };
            run.case(&format!("vparams-{fs}:{kind}"), ans.starts_with("ok") || ans.ends_with("point"), &format!("vparams {fs} {}", hex(&bytes)), &ans);
        }
    }
}

// ---------------------------------------------------------------------------------------------
// ZKIR

fn ty_parts(t: &IrType) -> (u64, u64) {
    match t {
        IrType::Bool => (0, 0),
        IrType::Bytes(n) => (1, *n as u64),
        IrType::Native => (2, 0),
        IrType::BigUint(n) => (3, *n as u64),
        IrType::JubjubPoint => (4, 0),
        IrType::JubjubScalar => (5, 0),
    }
}

/// `(variant index, type payload, numeric payload, name)`.
pub(crate) fn op_parts(op: &Operation) -> (u64, Option<(u64, u64)>, Option<u64>, &'static str) {
    use Operation::*;
    match op {
        Load(t) => (0, Some(ty_parts(t)), None, "Load"),
        Publish => (1, None, None, "Publish"),
        AssertEqual => (2, None, None, "AssertEqual"),
        AssertNotEqual => (3, None, None, "AssertNotEqual"),
        IsEqual => (4, None, None, "IsEqual"),
        Add => (5, None, None, "Add"),
        Sub => (6, None, None, "Sub"),
        Mul => (7, None, None, "Mul"),
        Neg => (8, None, None, "Neg"),
        ModExp(n) => (9, None, Some(*n), "ModExp"),
        InnerProduct => (10, None, None, "InnerProduct"),
        AffineCoordinates => (11, None, None, "AffineCoordinates"),
        IntoBytes(n) => (12, None, Some(*n as u64), "IntoBytes"),
        FromBytes(t) => (13, Some(ty_parts(t)), None, "FromBytes"),
        Poseidon => (14, None, None, "Poseidon"),
        Sha256 => (15, None, None, "Sha256"),
        Sha512 => (16, None, None, "Sha512"),
    }
}

const Q61: u128 = (1u128 << 61) - 1;
fn ir_step(acc: u128, v: u128) -> u128 {
    (acc * 1000003 + v % Q61 + 1) % Q61
}
fn ir_bytes(acc: u128, b: &[u8]) -> u128 {
    b.iter().fold(ir_step(acc, b.len() as u128), |a, x| ir_step(a, *x as u128))
}
fn ir_digest(prog: &[Instruction]) -> u128 {
    let mut acc = 11u128;
    for i in prog {
        let (tag, ty, num, _) = op_parts(&i.operation);
        acc = ir_step(acc, tag as u128);
        acc = match ty {
            None => ir_step(acc, 0),
            Some((t, p)) => ir_step(ir_step(ir_step(acc, 1), t as u128), p as u128),
        };
        acc = ir_step(acc, num.unwrap_or(0) as u128);
        acc = i.inputs.iter().fold(ir_step(acc, i.inputs.len() as u128), |a, s| ir_bytes(a, s.as_bytes()));
        acc = i.outputs.iter().fold(ir_step(acc, i.outputs.len() as u128), |a, s| ir_bytes(a, s.as_bytes()));
    }
    acc
}

fn ir_class(e: &std::io::Error) -> String {
    let m = e.to_string();
    for (pat, cls) in [
        ("UnexpectedEnd", "eof"),
        ("UnexpectedEof", "eof"),
        ("LimitExceeded", "ir-limit"),
        ("InvalidIntegerType", "ir-varint"),
        ("UnexpectedVariant", "ir-tag"),
        ("Utf8", "ir-utf8"),
        ("wrong arity", "ir-arity"),
    ] {
        if m.contains(pat) {
            return cls.into();
        }
    }
    format!("other:{}", m.replace(' ', "_"))
}

const IR_LIMIT: usize = 1 << 24;

/// The real `read_relation` on one byte string: canonical answer line.
fn irb_answer(bytes: &[u8]) -> String {
    let r = mzkh::catch(|| {
        let mut rd = bytes;
        let r = ZkirRelation::read_relation(&mut rd);
        (r, rd.len())
    });
    match r {
        Err(msg) => format!("panic {}", msg.replace(['\n', '\t'], " ")),
        Ok((Err(e), _)) => format!("err {}", ir_class(&e)),
        Ok((Ok(rel), rest)) => {
            let prog = rel.verif_instructions();
            format!("ok n={} dg={} rest={rest}", prog.len(), ir_digest(&prog))
        }
    }
}

/// Child mode (`h-c16 --irb-child <file> <start>`): decode the byte strings of `<file>` (one hex
/// string per line) from index `<start>` on, printing `idx<TAB>peak<TAB>answer` after each. The
/// bincode decoder pre-allocates from length prefixes; if the size limit of `read_relation` is ever
/// lost, an input can ABORT the process (allocation failure is not a panic) — running the sweep in
/// a child keeps the harness alive and lets it name the aborting input.
pub fn irb_child(file: &str, start: usize) {
    use std::io::Write;
    mzkh::quiet_panics();
    let text = std::fs::read_to_string(file).expect("case file");
    let out = std::io::stdout();
    for (idx, line) in text.lines().enumerate().skip(start) {
        let bytes: Vec<u8> = if line == "-" {
            vec![]
        } else {
            (0..line.len() / 2).map(|i| u8::from_str_radix(&line[2 * i..2 * i + 2], 16).unwrap()).collect()
        };
        let (ans, peak) = crate::alloc::measure(|| irb_answer(&bytes));
        let mut o = out.lock();
        writeln!(o, "{idx}\t{peak}\t{ans}").unwrap();
        o.flush().unwrap();
    }
}

/// Cases of the bincode sweep, decoded in a child process by `run_irb_batch`.
pub struct IrbCases(pub(crate) Vec<(String, Vec<u8>)>);

pub(crate) fn irb_case(cases: &mut IrbCases, bytes: &[u8], kind: &str) {
    cases.0.push((kind.to_string(), bytes.to_vec()));
}

fn run_irb_batch(run: &mut Run, cases: IrbCases) {
    let cases = cases.0;
    let file = run.ctx.out_dir.join("irb_cases.txt");
    std::fs::write(&file, cases.iter().map(|(_, b)| hex(b)).collect::<Vec<_>>().join("\n") + "\n").unwrap();
    let exe = std::env::current_exe().expect("current_exe");
    let mut answers: Vec<Option<(usize, String)>> = vec![None; cases.len()];
    let mut start = 0;
    let mut restarts = 0;
    while start < cases.len() {
        let out = std::process::Command::new(&exe)
            .arg("--irb-child")
            .arg(&file)
            .arg(start.to_string())
            .output()
            .expect("spawn child");
        let mut last = None;
        for l in String::from_utf8_lossy(&out.stdout).lines() {
            let mut it = l.splitn(3, '\t');
            if let (Some(i), Some(p), Some(a)) = (it.next(), it.next(), it.next()) {
                if let (Ok(i), Ok(p)) = (i.parse::<usize>(), p.parse::<usize>()) {
                    answers[i] = Some((p, a.to_string()));
                    last = Some(i);
                }
            }
        }
        let next = last.map(|i| i + 1).unwrap_or(start);
        if next >= cases.len() && out.status.success() {
            break;
        }
        // the child died while decoding case `next`
        let stderr = String::from_utf8_lossy(&out.stderr);
        let msg: String = stderr.lines().next().unwrap_or("").chars().take(200).collect();
        answers[next] = Some((0, format!("abort {msg}")));
        start = next + 1;
        restarts += 1;
        if restarts > 200 {
            break;
        }
    }
    run.ctx.count_n("irb-child-restarts", restarts);
    let _ = std::fs::remove_file(&file);
    for ((kind, bytes), ans) in cases.iter().zip(answers) {
        let (peak, ans) = ans.unwrap_or((0, "abort (no answer)".to_string()));
        run.ctx.count("guarded:zkir-read_relation");
        let e = run.peaks.entry("zkir-read_relation".to_string()).or_insert((0, 0));
        if peak > e.0 {
            *e = (peak, bytes.len());
        }
        let bound = crate::alloc::ALLOC_C * bytes.len() + 2 * IR_LIMIT + (1 << 20);
        if peak > bound {
            run.ctx.oracle_fail(
                "zkir-read_relation:alloc",
                &format!("ZkirRelation::read_relation: peak allocation {peak} bytes for {} input bytes", bytes.len()),
                json!({"what": "zkir-read_relation", "bytes_hex": hex(bytes), "len": bytes.len(), "peak": peak}),
            );
        }
        if ans.starts_with("panic") || ans.starts_with("abort") {
            let k = if ans.starts_with("panic") { "panic" } else { "abort" };
            run.ctx.oracle_fail(
                &format!("zkir-read_relation:{k}"),
                &format!("ZkirRelation::read_relation on untrusted bytes: {ans}"),
                json!({"what": "zkir-read_relation", "bytes_hex": hex(bytes), "len": bytes.len(), "outcome": ans}),
            );
        }
        let shown = if ans.starts_with("panic") { "panic".to_string() } else if ans.starts_with("abort") { "abort".to_string() } else { ans };
        let op = format!(
            "irb {} {} {} {}",
            std::mem::size_of::<Instruction>(),
            std::mem::size_of::<String>(),
            IR_LIMIT,
            hex(bytes)
        );
        run.case(&format!("irb:{kind}"), !shown.ends_with("eof"), &op, &shown);
    }
}

fn random_type(rng: &mut impl Rng) -> IrType {
    match rng.gen_range(0..8) {
        0 => IrType::Bool,
        1 => IrType::Bytes(rng.gen_range(0..40)),
        2 => IrType::Native,
        3 => IrType::BigUint(rng.gen_range(0..600)),
        4 => IrType::JubjubPoint,
        5 => IrType::JubjubScalar,
        6 => IrType::Bytes([0usize, 1, 31, 32, 33, 255, 256, 65535, 65536, 1 << 32, usize::MAX][rng.gen_range(0..11)]),
        _ => IrType::BigUint([0u32, 1, 250, 251, 65535, 65536, u32::MAX][rng.gen_range(0..7)]),
    }
}

fn random_op(rng: &mut impl Rng) -> Operation {
    use Operation::*;
    match rng.gen_range(0..17) {
        0 => Load(random_type(rng)),
        1 => Publish,
        2 => AssertEqual,
        3 => AssertNotEqual,
        4 => IsEqual,
        5 => Add,
        6 => Sub,
        7 => Mul,
        8 => Neg,
        9 => ModExp([0u64, 1, 3, 250, 251, 65537, u32::MAX as u64, u64::MAX][rng.gen_range(0..8)]),
        10 => InnerProduct,
        11 => AffineCoordinates,
        12 => IntoBytes([0usize, 1, 32, 33, 250, 251, 65536, (1 << 32) + 1, usize::MAX][rng.gen_range(0..9)]),
        13 => FromBytes(random_type(rng)),
        14 => Poseidon,
        15 => Sha256,
        _ => Sha512,
    }
}

fn random_name(rng: &mut impl Rng) -> String {
    const POOL: [&str; 14] = ["x", "y", "z", "v0", "v1", "b", "out", "", "Native:0x01", "0xFF", "1", "é∀𝔽", "Jubjub:GENERATOR", "BigUint:ff"];
    if rng.gen_bool(0.8) {
        POOL[rng.gen_range(0..POOL.len())].to_string()
    } else {
        (0..rng.gen_range(0..300)).map(|_| rng.gen_range(b'a'..=b'z') as char).collect()
    }
}

/// Arity-correct with probability ~3/4.
fn random_instruction(rng: &mut impl Rng) -> Instruction {
    let op = random_op(rng);
    use Operation::*;
    let (mut ni, mut no) = match op {
        Load(_) => (0, rng.gen_range(1..4)),
        Publish => (rng.gen_range(1..4), 0),
        AssertEqual | AssertNotEqual => (2, 0),
        IsEqual | Add | Sub | Mul | ModExp(_) => (2, 1),
        Neg | IntoBytes(_) | FromBytes(_) | Sha256 | Sha512 => (1, 1),
        InnerProduct => (2 * rng.gen_range(1..4), 1),
        AffineCoordinates => (1, 2),
        Poseidon => (rng.gen_range(1..5), 1),
    };
    if rng.gen_bool(0.25) {
        if rng.gen_bool(0.5) {
            ni = rng.gen_range(0..5);
        } else {
            no = rng.gen_range(0..4);
        }
    }
    Instruction {
        operation: op,
        inputs: (0..ni).map(|_| random_name(rng)).collect(),
        outputs: (0..no).map(|_| random_name(rng)).collect(),
    }
}

const JSON_EXAMPLES: [&str; 4] = [
    r#"{"version":{"major":3,"minor":0},"instructions":[{"op":{"load":"Native"},"outputs":["v0","v1"]},{"op":{"load":"Bool"},"outputs":["b0"]},{"op":{"load":{"Bytes":2}},"outputs":["bytes"]},{"op":{"load":{"BigUint":512}},"outputs":["P","Q"]},{"op":"mul","inputs":["P","Q"],"outputs":["N"]},{"op":"publish","inputs":["v0","v1","N"]},{"op":"add","inputs":["v0","v1"],"outputs":["z"]},{"op":"assert_equal","inputs":["z","Native:-0x01"]}]}"#,
    r#"{"instructions":[{"op":{"load":"JubjubPoint"},"outputs":["p"]},{"op":{"load":"JubjubScalar"},"outputs":["s"]},{"op":"mul","inputs":["s","p"],"outputs":["q"]},{"op":"affine_coordinates","inputs":["q"],"outputs":["qx","qy"]},{"op":"poseidon","inputs":["qx","qy"],"outputs":["h"]},{"op":"publish","inputs":["h"]}]}"#,
    r#"{"instructions":[{"op":{"load":{"Bytes":4}},"outputs":["m"]},{"op":"sha256","inputs":["m"],"outputs":["d"]},{"op":{"from_bytes":"Native"},"inputs":["0x01020304"],"outputs":["n"]},{"op":{"into_bytes":32},"inputs":["n"],"outputs":["nb"]},{"op":{"mod_exp":65537},"inputs":["BigUint:02","BigUint:ff"],"outputs":["e"]},{"op":"inner_product","inputs":["n","n","n","n"],"outputs":["ip"]},{"op":"is_equal","inputs":["d","d"],"outputs":["t"]},{"op":"neg","inputs":["n"],"outputs":["nn"]},{"op":"sub","inputs":["n","nn"],"outputs":["dd"]},{"op":"assert_not_equal","inputs":["n","dd"]},{"op":"sha512","inputs":["m"],"outputs":["d5"]},{"op":"publish","inputs":["t","e"]}]}"#,
    r#"{"instructions":[]}"#,
];

pub fn run_ir(run: &mut Run) {
    let mut cases = IrbCases(vec![]);
    let mut rng = run.ctx.rng("ir");
    let quick = run.ctx.quick();

    // --- JSON -------------------------------------------------------------------------------
    let mut jsons: Vec<(String, String)> = JSON_EXAMPLES.iter().map(|s| ("example".to_string(), s.to_string())).collect();
    // structured programs rendered to JSON through the instruction list's own serde impl
    let n_prog = if quick { 60 } else { 1500 };
    let mut programs: Vec<Vec<Instruction>> = vec![];
    for _ in 0..n_prog {
        let n = rng.gen_range(0..7);
        programs.push((0..n).map(|_| random_instruction(&mut rng)).collect());
    }
    for p in &programs {
        jsons.push(("structured".into(), serde_json::to_string(&json!({ "instructions": p })).unwrap()));
    }
    let base: Vec<String> = jsons.iter().map(|(_, s)| s.clone()).collect();
    for s in base.iter().take(if quick { 12 } else { 200 }) {
        let b = s.as_bytes();
        for _ in 0..(if quick { 6 } else { 30 }) {
            jsons.push(("bitflip".into(), String::from_utf8_lossy(&mutate::flip_bit(b, &mut rng)).into_owned()));
            let t = rng.gen_range(0..=b.len());
            jsons.push(("truncate".into(), String::from_utf8_lossy(&b[..t]).into_owned()));
        }
    }
    for s in [
        "", "{", "[]", "null", "{\"instructions\":null}", "{\"instructions\":[{}]}", "{\"instructions\":[{\"op\":\"nope\"}]}",
        "{\"instructions\":[{\"op\":{\"load\":{\"Bytes\":-1}},\"outputs\":[\"x\"]}]}",
        "{\"instructions\":[{\"op\":{\"load\":{\"Bytes\":18446744073709551616}},\"outputs\":[\"x\"]}]}",
        "{\"instructions\":[{\"op\":{\"load\":{\"BigUint\":4294967296}},\"outputs\":[\"x\"]}]}",
        "{\"instructions\":[{\"op\":{\"mod_exp\":1.5},\"inputs\":[\"a\",\"b\"],\"outputs\":[\"x\"]}]}",
        "{\"instructions\":[{\"op\":\"add\",\"inputs\":[\"a\",\"b\"],\"outputs\":[\"x\"],\"extra\":1}]}",
    ] {
        jsons.push(("malformed".into(), s.to_string()));
    }
    {
        // deep nesting (serde_json has a recursion limit: an error, not a stack overflow)
        let deep = format!("{{\"instructions\":{}{}}}", "[".repeat(5000), "]".repeat(5000));
        jsons.push(("deep-nesting".into(), deep));
    }
    let mut bincodes: Vec<Vec<u8>> = vec![];
    let mut by_class: BTreeMap<String, u64> = BTreeMap::new();
    for (kind, s) in jsons {
        let leaked: &'static str = Box::leak(s.clone().into_boxed_str());
        let r = run.guarded("zkir-read-json", "zkir-read-json", s.as_bytes(), 1 << 22, || ZkirRelation::read(leaked));
        let cls = match &r {
            None => "panic".to_string(),
            Some(Ok(_)) => "ok".to_string(),
            Some(Err(e)) => {
                let d = format!("{e:?}");
                if d.starts_with("wrong arity") {
                    "err:arity".into()
                } else {
                    "err:parse".into()
                }
            }
        };
        *by_class.entry(format!("{kind}:{cls}")).or_insert(0) += 1;
        if let Some(Ok(rel)) = r {
            let mut b = vec![];
            rel.write_relation(&mut b).unwrap();
            // what serde accepted, re-encoded by bincode, must decode to the same program in the model
            irb_case(&mut cases, &b, &format!("from-json-{kind}"));
            if bincodes.len() < (if quick { 10 } else { 24 }) && b.len() > 4 {
                bincodes.push(b);
            }
        }
    }
    for (k, v) in by_class {
        run.ctx.count_n(&format!("zkir-json:{k}"), v);
    }

    // --- arity check on structured programs ------------------------------------------------------
    for p in &programs {
        let spec = if p.is_empty() {
            "-".to_string()
        } else {
            p.iter()
                .map(|i| format!("{}:{}:{}", op_parts(&i.operation).0, i.inputs.len(), i.outputs.len()))
                .collect::<Vec<_>>()
                .join(",")
        };
        let r = run.guarded("zkir-from_instructions", "zkir-from_instructions", &[], 1 << 22, || {
            ZkirRelation::from_instructions(p).map(|_| ())
        });
        let ans = match r {
            None => "panic".to_string(),
            Some(Ok(())) => "ok".to_string(),
            Some(Err(e)) => {
                let d = format!("{e:?}");
                let name = d.trim_start_matches("wrong arity: '").split(['(', '\'']).next().unwrap_or("?").to_string();
                format!("err {name}")
            }
        };
        run.case("irarity", !p.is_empty(), &format!("irarity {spec}"), &ans);
    }

    // --- bincode ------------------------------------------------------------------------------
    // regression cases of the unbounded length fields (stay in the quick tier)
    for b in [
        vec![0xfdu8, 0, 0, 0, 0, 0, 0, 0, 0x10],
        vec![0xfd, 0xff, 0xff, 0xff, 0xff, 0xff, 0xff, 0xff, 0xff],
        vec![0xfc, 0, 0, 0x10, 0],
        vec![1, 0, 0, 0, 1, 0xfd, 0, 0, 0, 0, 0, 0, 0, 0x10],
        vec![1, 0, 0, 0, 1, 0xfc, 0, 0, 0, 0x10],
        vec![1, 0, 0, 0xfd, 0, 0, 0, 0, 0, 0, 0, 0x10],
        vec![0xfc, 0xff, 0xff, 0x03, 0x00],
    ] {
        irb_case(&mut cases, &b, "regress-length-field");
    }
    // programs that need not satisfy the arity check, encoded by the crate's own encoder
    for p in programs.iter().take(if quick { 40 } else { 600 }) {
        // `write_relation` needs a relation; build the bytes from an arity-correct prefix instead
        let ok: Vec<Instruction> = p.iter().filter(|i| ZkirRelation::from_instructions(&[(*i).clone()]).is_ok()).cloned().collect();
        if let Ok(rel) = ZkirRelation::from_instructions(&ok) {
            let mut b = vec![];
            rel.write_relation(&mut b).unwrap();
            irb_case(&mut cases, &b, "structured");
            if bincodes.len() < (if quick { 16 } else { 48 }) && b.len() > 8 {
                bincodes.push(b);
            }
        }
    }
    for (bi, h) in bincodes.iter().enumerate() {
        let heavy = bi < (if quick { 3 } else { 12 });
        for t in 0..h.len() {
            if heavy || t % 5 == 0 {
                irb_case(&mut cases, &h[..t], "truncate");
            }
        }
        // all 256 values of the leading bytes (lengths, tags, payload markers)
        let lead = h.len().min(if heavy { 48 } else { 6 });
        for i in 0..lead {
            for v in 0..=255u8 {
                if heavy || v >= 250 || v < 20 {
                    irb_case(&mut cases, &mutate::subst_byte(h, i, v), &format!("byte{}", i.min(9)));
                }
            }
        }
        for _ in 0..(if quick { 20 } else { 300 }) {
            irb_case(&mut cases, &mutate::flip_bit(h, &mut rng), "bitflip");
        }
        irb_case(&mut cases, &mutate::append(h, &[0xff, 0xfe]), "appended");
        // a wide marker spliced at a random position
        for _ in 0..(if quick { 6 } else { 60 }) {
            let at = rng.gen_range(0..h.len());
            let marker = [0xfbu8, 0xfc, 0xfd, 0xfe, 0xff][rng.gen_range(0..5)];
            let mut m = h[..at].to_vec();
            m.push(marker);
            m.extend(mutate::random_bytes(8, &mut rng));
            m.extend_from_slice(&h[at..]);
            irb_case(&mut cases, &m, "marker-insert");
        }
    }
    for _ in 0..(if quick { 100 } else { 20000 }) {
        let n = rng.gen_range(0..60);
        irb_case(&mut cases, &mutate::random_bytes(n, &mut rng), "random");
        // small random bytes biased to small values (plausible tags/lengths)
        let m: Vec<u8> = (0..n).map(|_| if rng.gen_bool(0.8) { rng.gen_range(0..6) } else { rng.gen() }).collect();
        irb_case(&mut cases, &m, "random-small");
    }
    crate::extra::ir_length_fields(&mut cases);
    run_irb_batch(run, cases);
}

/// Prover-local objects: exercised, panics and large allocations are REPORTED ONLY (counted in the
/// evidence), never an oracle failure. Header fields that size an allocation are kept small: a
/// larger value would abort the process (see the final report).
pub fn run_prover_local(run: &mut Run, o: &Objects) {
    let mut rng = run.ctx.rng("prover-local");
    let quick = run.ctx.quick();
    let mut report = |run: &mut Run, what: &str, bytes: &[u8], f: &mut dyn FnMut() -> Result<(), String>| {
        let (r, peak) = crate::alloc::measure(|| mzkh::catch(|| f()));
        let cls = match &r {
            Err(msg) => {
                let n = run.notes.len();
                if n < 40 {
                    run.notes
                        .entry(format!("{what}:panic:{}", msg.chars().take(60).collect::<String>()))
                        .or_insert_with(|| format!("first input (hex, <= 64 bytes): {}", hex(&bytes[..bytes.len().min(64)])));
                }
                "PANIC".to_string()
            }
            Ok(Ok(())) => "ok".to_string(),
            Ok(Err(c)) => format!("err:{c}"),
        };
        run.ctx.count(&format!("reported-only:{what}:{cls}"));
        if peak > crate::alloc::ALLOC_C * bytes.len() + (1 << 20) {
            run.ctx.count(&format!("reported-only:{what}:alloc>64*len+1MiB"));
            run.notes
                .entry(format!("{what}:alloc"))
                .or_insert_with(|| format!("peak {peak} bytes for {} input bytes, first bytes {}", bytes.len(), hex(&bytes[..bytes.len().min(16)])));
        }
    };
    // full parameter set of k = 3 (small), both formats
    let small = ParamsKZG::<Bls>::unsafe_setup(3, {
        use rand_core::SeedableRng;
        rand_chacha::ChaCha8Rng::seed_from_u64(77)
    });
    for fi in 0..2 {
        let (fmt, _) = FORMATS[fi];
        let mut h = vec![];
        small.write_custom(&mut h, fmt).unwrap();
        let mut cases: Vec<Vec<u8>> = vec![h.clone()];
        for t in (0..h.len()).step_by(if quick { 13 } else { 1 }) {
            cases.push(h[..t].to_vec());
        }
        // the k word: only values whose 2^k points stay small or whose shift overflows
        for v in [0u8, 1, 2, 4, 5, 10, 12, 16, 64, 65, 128, 255] {
            cases.push(mutate::subst_byte(&h, 0, v));
        }
        for i in 1..4 {
            // higher bytes of k: 2^(256+..) etc. -> shift overflow
            cases.push(mutate::subst_byte(&h, i, 1));
        }
        for _ in 0..(if quick { 30 } else { 400 }) {
            cases.push(mutate::flip_bit_in(&h, 4, h.len(), &mut rng));
        }
        for c in cases {
            report(run, "paramskzg-read_custom", &c, &mut || {
                ParamsKZG::<Bls>::read_custom(&mut &c[..], fmt).map(|_| ()).map_err(|e| io_class(&e))
            });
        }
    }
    // proving key of relation A
    for fi in 0..2 {
        let (fmt, _) = FORMATS[fi];
        let h = o.a.pk_bytes[fi].clone();
        let mut cases: Vec<Vec<u8>> = vec![h.clone()];
        for t in (0..h.len()).step_by(if quick { 211 } else { 17 }) {
            cases.push(h[..t].to_vec());
        }
        for i in 0..8 {
            if i == 3 {
                // k bytes: keep the domain small (2^k field elements are allocated)
                for v in [0u8, 1, 3, 5, 8, 33, 200] {
                    cases.push(mutate::subst_byte(&h, i, v));
                }
            } else {
                for v in [0u8, 1, 2, 3, 127, 255] {
                    cases.push(mutate::subst_byte(&h, i, v));
                }
            }
        }
        // MidnightPK = max_bit_len, k, relation (empty), plain VerifyingKey, polynomials
        let vk_len = o.a.vk_bytes[fi].len() - 21 + 2;
        // polynomial count / length words behind the key
        for i in vk_len..(vk_len + 8).min(h.len()) {
            for v in [0u8, 1, 2, 16, 17, 255] {
                cases.push(mutate::subst_byte(&h, i, v));
            }
        }
        for _ in 0..(if quick { 40 } else { 600 }) {
            cases.push(mutate::flip_bit_in(&h, 8, h.len(), &mut rng));
        }
        for c in cases {
            report(run, "midnightpk-read", &c, &mut || {
                MidnightPK::<RelA>::read(&mut &c[..], fmt).map(|_| ()).map_err(|e| io_class(&e))
            });
        }
    }
}
