//! Byte-string mutators (all randomness comes from the caller's seeded rng).
use rand::Rng;

pub fn flip_bit(b: &[u8], rng: &mut impl Rng) -> Vec<u8> {
    let mut v = b.to_vec();
    if v.is_empty() {
        return v;
    }
    let i = rng.gen_range(0..v.len());
    v[i] ^= 1 << rng.gen_range(0..8);
    v
}

pub fn flip_bit_in(b: &[u8], lo: usize, hi: usize, rng: &mut impl Rng) -> Vec<u8> {
    let mut v = b.to_vec();
    if lo >= hi || hi > v.len() {
        return v;
    }
    let i = rng.gen_range(lo..hi);
    v[i] ^= 1 << rng.gen_range(0..8);
    v
}

pub fn subst_byte(b: &[u8], i: usize, x: u8) -> Vec<u8> {
    let mut v = b.to_vec();
    v[i] = x;
    v
}

/// Copy `len` bytes from `src[from..]` over `dst[at..]`.
pub fn splice(dst: &[u8], at: usize, src: &[u8], from: usize, len: usize) -> Vec<u8> {
    let mut v = dst.to_vec();
    for j in 0..len {
        if at + j < v.len() && from + j < src.len() {
            v[at + j] = src[from + j];
        }
    }
    v
}

pub fn append(b: &[u8], extra: &[u8]) -> Vec<u8> {
    let mut v = b.to_vec();
    v.extend_from_slice(extra);
    v
}

pub fn random_bytes(n: usize, rng: &mut impl Rng) -> Vec<u8> {
    (0..n).map(|_| rng.gen()).collect()
}
