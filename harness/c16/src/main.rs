//! Correspondence harness of property C16: decoding and verifying untrusted bytes is total.
//!
//! Every decoder call runs the REAL code of /repo under `mzkh::catch` and under a counting global
//! allocator. A panic, or a peak allocation above `ALLOC_C * len + c0`, is an oracle failure
//! (the property statement fails on that input). The verdict class / decoded structure of every
//! case is also printed for the Lean model to reproduce.
mod alloc;
mod compile;
mod extra;
mod mutate;
mod objects;
mod sweeps;
mod sweeps2;

use std::collections::{BTreeMap, HashSet};
use std::io;

use midnight_curves::{G1Affine, G1Projective, G2Affine, G2Projective};
use midnight_proofs::utils::{helpers::ProcessedSerdeObject, SerdeFormat};
use midnight_zk_stdlib::ZkStdLibArch;
use mzkh::Ctx;
use num_bigint::BigUint;
use serde_json::json;

pub type F = midnight_curves::Fq;

pub const FORMATS: [(SerdeFormat, &str); 2] = [(SerdeFormat::Processed, "p"), (SerdeFormat::RawBytes, "r")];

pub fn hex(b: &[u8]) -> String {
    if b.is_empty() {
        return "-".into();
    }
    const D: &[u8; 16] = b"0123456789abcdef";
    let mut s = String::with_capacity(b.len() * 2);
    for x in b {
        s.push(D[(x >> 4) as usize] as char);
        s.push(D[(x & 15) as usize] as char);
    }
    s
}

pub fn be_hex(b: &[u8]) -> String {
    format!("0x{}", BigUint::from_bytes_be(b).to_str_radix(16))
}

/// Error class of an `io::Error` produced by the decoders (the classes of `Model/C16/Bytes.lean`).
pub fn io_class(e: &io::Error) -> String {
    let msg = e.to_string();
    if e.kind() == io::ErrorKind::UnexpectedEof || msg.contains("UnexpectedEof") || msg.contains("UnexpectedEnd") {
        return "eof".into();
    }
    for (pat, cls) in [
        ("Unsupported ZKStd version", "arch-version"),
        ("InvalidBooleanValue", "arch-bool"),
        ("Unsupported number of pow2range columns", "arch-pow2"),
        ("unexpected version byte", "vk-version"),
        ("exceeds maxium", "k-range"),
        ("is too large for a circuit of degree", "k-ext"),
        ("unexpected number of fixed commitments", "nfixed"),
        ("Invalid point", "point"),
        ("invalid point", "point"),
        ("Invalid data.", "scalar"),
        ("scalar encoding", "scalar"),
    ] {
        if msg.contains(pat) {
            return cls.into();
        }
    }
    format!("other:{:?}:{}", e.kind(), msg.replace(' ', "_"))
}

pub fn g1_render(p: &G1Affine) -> String {
    use group::prime::PrimeCurveAffine;
    if bool::from(p.is_identity()) {
        "inf".into()
    } else {
        format!("{} {}", be_hex(&p.x().to_bytes_be()), be_hex(&p.y().to_bytes_be()))
    }
}

pub fn g2_render(p: &G2Affine) -> String {
    use group::prime::PrimeCurveAffine;
    if bool::from(p.is_identity()) {
        "inf".into()
    } else {
        let (x, y) = (p.x(), p.y());
        format!(
            "{} {} {} {}",
            be_hex(&x.c0().to_bytes_be()),
            be_hex(&x.c1().to_bytes_be()),
            be_hex(&y.c0().to_bytes_be()),
            be_hex(&y.c1().to_bytes_be())
        )
    }
}

/// Shared state of a run.
pub struct Run {
    pub ctx: Ctx,
    seen_g1: HashSet<(u8, Vec<u8>)>,
    pub shapes: BTreeMap<Vec<u8>, Option<(usize, usize, usize)>>,
    pub consts: String,
    pub peaks: BTreeMap<String, (usize, usize)>,
    /// first panic message / largest allocation per reported-only decoder
    pub notes: BTreeMap<String, String>,
}

impl Run {
    /// Run a decoder on untrusted bytes: panic and allocation oracles.
    /// `key` is the stable identity of the failure class (used for known findings).
    pub fn guarded<T>(&mut self, what: &str, key: &str, bytes: &[u8], c0: usize, f: impl FnOnce() -> T) -> Option<T> {
        let (r, peak) = alloc::measure(|| mzkh::catch(f));
        self.ctx.count(&format!("guarded:{what}"));
        let e = self.peaks.entry(what.to_string()).or_insert((0, 0));
        if peak > e.0 {
            *e = (peak, bytes.len());
        }
        let bound = alloc::ALLOC_C * bytes.len() + c0;
        if peak > bound {
            self.ctx.oracle_fail(
                &format!("{key}:alloc"),
                &format!(
                    "{what}: peak allocation {peak} bytes for {} input bytes exceeds {} * len + {c0}",
                    bytes.len(),
                    alloc::ALLOC_C
                ),
                json!({"what": what, "bytes_hex": hex(&bytes[..bytes.len().min(8192)]), "len": bytes.len(), "peak": peak}),
            );
        }
        match r {
            Ok(v) => Some(v),
            Err(msg) => {
                self.ctx.oracle_fail(
                    &format!("{key}:panic"),
                    &format!("{what} panicked on untrusted bytes: {msg}"),
                    json!({"what": what, "bytes_hex": hex(&bytes[..bytes.len().min(8192)]), "len": bytes.len(), "panic": msg}),
                );
                None
            }
        }
    }

    /// A correspondence case. In the `search` tier (whose only purpose is to hit an oracle failure
    /// on the real code) no request lines are written: the model is not consulted there.
    pub fn case(&mut self, kind: &str, nontrivial: bool, op: &str, ans: &str) {
        if self.ctx.search() {
            self.ctx.count(&format!("searched:{}", kind.split(':').next().unwrap_or(kind)));
        } else {
            self.ctx.case(kind, nontrivial, op, ans);
        }
    }

    /// Point-level case (deduplicated): `g1 <fmt> <hex>`.
    pub fn g1_case(&mut self, fi: usize, chunk: &[u8], kind: &str) {
        if !self.seen_g1.insert((fi as u8, chunk.to_vec())) {
            return;
        }
        let (fmt, fs) = FORMATS[fi];
        let r = self.guarded("g1-read", &format!("g1-read:{fs}"), chunk, 4096, || {
            let mut rd = chunk;
            <G1Projective as ProcessedSerdeObject>::read(&mut rd, fmt)
        });
        let ans = match r {
            None => "panic".to_string(),
            Some(Ok(p)) => {
                // the property's second sentence, checked directly on what the real decoder accepted
                use midnight_curves::CurveAffine;
                let a = G1Affine::from(p);
                let mut w = vec![];
                <G1Projective as ProcessedSerdeObject>::write(&p, &mut w, fmt).unwrap();
                let on_curve = bool::from(a.is_on_curve());
                let in_subgroup = p * (-F::from(1)) + p == G1Projective::default();
                if !on_curve || (fi == 0 && !in_subgroup) || w != chunk {
                    self.ctx.oracle_fail(
                        &format!("g1-read:{fs}:accepted-invalid"),
                        &format!(
                            "checked G1 decoder accepted bytes that are {}",
                            if !on_curve { "not on the curve" } else if w != chunk { "not the canonical encoding of the decoded point" } else { "a point outside the prime-order subgroup (compressed format)" }
                        ),
                        json!({"format": fs, "bytes_hex": hex(chunk), "decoded": g1_render(&a), "reencoded": hex(&w)}),
                    );
                }
                format!("ok {}", g1_render(&a))
            }
            Some(Err(e)) => format!("err {}", io_class(&e)),
        };
        let nontrivial = ans.starts_with("ok");
        self.case(&format!("g1-{fs}:{kind}"), nontrivial, &format!("g1 {fs} {}", hex(chunk)), &ans);
    }

    pub fn g2_case(&mut self, fi: usize, chunk: &[u8], kind: &str) {
        let (fmt, fs) = FORMATS[fi];
        let r = self.guarded("g2-read", &format!("g2-read:{fs}"), chunk, 4096, || {
            let mut rd = chunk;
            <G2Projective as ProcessedSerdeObject>::read(&mut rd, fmt)
        });
        let ans = match r {
            None => "panic".to_string(),
            Some(Ok(p)) => {
                use midnight_curves::CurveAffine;
                let a = G2Affine::from(p);
                let mut w = vec![];
                <G2Projective as ProcessedSerdeObject>::write(&p, &mut w, fmt).unwrap();
                let on_curve = bool::from(a.is_on_curve());
                let in_subgroup = p * (-F::from(1)) + p == G2Projective::default();
                if !on_curve || (fi == 0 && !in_subgroup) || w != chunk {
                    self.ctx.oracle_fail(
                        &format!("g2-read:{fs}:accepted-invalid"),
                        "checked G2 decoder accepted bytes that are off the curve, outside the subgroup (compressed) or non-canonical",
                        json!({"format": fs, "bytes_hex": hex(chunk), "decoded": g2_render(&a), "reencoded": hex(&w)}),
                    );
                }
                format!("ok {}", g2_render(&a))
            }
            Some(Err(e)) => format!("err {}", io_class(&e)),
        };
        let nontrivial = ans.starts_with("ok");
        self.case(&format!("g2-{fs}:{kind}"), nontrivial, &format!("g2 {fs} {}", hex(chunk)), &ans);
    }

    /// Constraint-system shape `ZkStdLib::configure` builds for the architecture at the head of
    /// `bytes` (what `read_from_cs` compares the header with); `None` if the header does not decode.
    pub fn shape_for(&mut self, bytes: &[u8]) -> Option<(usize, usize, usize)> {
        let head = bytes[..bytes.len().min(16)].to_vec();
        if let Some(s) = self.shapes.get(&head) {
            return *s;
        }
        let s = mzkh::catch(|| {
            let arch = ZkStdLibArch::read(&mut &head[..]).ok()?;
            Some(objects::shape_of_arch(arch))
        })
        .unwrap_or(None);
        self.shapes.insert(head, s);
        s
    }
}

fn main() {
    let args: Vec<String> = std::env::args().collect();
    if args.len() == 4 && args[1] == "--irb-child" {
        sweeps2::irb_child(&args[2], args[3].parse().expect("start index"));
        return;
    }
    if args.len() == 4 && args[1] == "--irc-child" {
        compile::irc_child(&args[2], args[3].parse().expect("start index"));
        return;
    }
    let ctx = Ctx::from_args("C16");
    let mut run = Run {
        ctx,
        seen_g1: HashSet::new(),
        shapes: BTreeMap::new(),
        consts: objects::col_consts(),
        peaks: BTreeMap::new(),
        notes: BTreeMap::new(),
    };
    // development aid: `H_C16_ONLY=irc` runs the compile sweep alone (never set by bin/check)
    if std::env::var("H_C16_ONLY").as_deref() == Ok("irc") {
        compile::run_compile(&mut run);
        extra::run_vkdeg(&mut run);
        extra::run_iroff(&mut run);
        run.ctx.finish();
        return;
    }
    let objs = objects::Objects::build(&mut run);
    sweeps::run_points(&mut run, &objs);
    sweeps::run_arch(&mut run, &objs);
    sweeps::run_mvk(&mut run, &objs);
    sweeps2::run_proofs(&mut run, &objs);
    sweeps2::run_vparams(&mut run, &objs);
    sweeps2::run_ir(&mut run);
    compile::run_compile(&mut run);
    extra::run_vkdeg(&mut run);
    extra::run_iroff(&mut run);
    extra::run_length_fields(&mut run, &objs);
    sweeps2::run_prover_local(&mut run, &objs);
    let peaks = run
        .peaks
        .iter()
        .map(|(k, v)| (k.clone(), json!({"peak_bytes": v.0, "input_len": v.1})))
        .collect::<serde_json::Map<_, _>>();
    run.ctx.set_extra("peak_allocation_per_decoder", serde_json::Value::Object(peaks));
    let notes = run.notes.iter().map(|(k, v)| (k.clone(), json!(v))).collect::<serde_json::Map<_, _>>();
    run.ctx.set_extra("length_fields_swept", json!(extra::LENGTH_FIELDS));
    run.ctx.set_extra("reported_only_samples", serde_json::Value::Object(notes));
    run.ctx.finish();
}
