//! Correspondence harness of property C16 (stub).
use mzkh::Ctx;

fn main() {
    let ctx = Ctx::from_args("C16");
    ctx.finish();
}
