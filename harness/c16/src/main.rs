//! probe (temporary)
use std::collections::HashMap;
use midnight_zk_stdlib::{MidnightCircuit, Relation};
use midnight_zkir::{IrValue, ZkirRelation};
type F = midnight_curves::Fq;

fn main() {
    mzkh::quiet_panics();
    let js = r#"{"instructions":[{"op":{"load":"Native"},"outputs":["x"]},{"op":{"into_bytes":4294967297},"inputs":["x"],"outputs":["b"]},{"op":"publish","inputs":["b"]}]}"#;
    let rel = ZkirRelation::read(js).unwrap();
    let mut b = vec![];
    rel.write_relation(&mut b).unwrap();
    println!("bincode: {:02x?}", b);
    let w: HashMap<&'static str, IrValue> = HashMap::from_iter([("x", F::from(5).into())]);
    let r = mzkh::catch(|| rel.public_inputs(w.clone()).map(|v| v.len()));
    println!("public_inputs into_bytes(2^32+1): {:?}", r);
    for js in [
        r#"{"instructions":[{"op":{"load":{"Bytes":0}},"outputs":["x"]}]}"#,
        r#"{"instructions":[{"op":{"load":{"BigUint":0}},"outputs":["x"]}]}"#,
        r#"{"instructions":[{"op":{"load":"Native"},"outputs":["x"]},{"op":{"into_bytes":33},"inputs":["x"],"outputs":["b"]}]}"#,
        r#"{"instructions":[{"op":{"load":"Native"},"outputs":["x"]},{"op":{"into_bytes":0},"inputs":["x"],"outputs":["b"]}]}"#,
        r#"{"instructions":[{"op":{"load":"Native"},"outputs":["x","x"]}]}"#,
        r#"{"instructions":[{"op":{"from_bytes":{"Bytes":3}},"inputs":["0xFFFF"],"outputs":["b"]}]}"#,
    ] {
        let r = mzkh::catch(|| ZkirRelation::read(js).map(|rel| {
            let c = mzkh::catch(|| MidnightCircuit::from_relation(&rel).min_k());
            format!("compile={:?}", c)
        }));
        println!("{js}\n   -> {:?}", r);
    }
    // bincode length field
    for bytes in [
        vec![0xfdu8, 0,0,0,0,0,0,0,0x10],           // 2^60 instructions
        vec![0xfd, 0xff,0xff,0xff,0xff,0xff,0xff,0xff,0xff],
        vec![0xfc, 0,0,0x10,0],           // 2^20 instructions
        vec![1, 0, 0, 0, 1, 0xfd, 0,0,0,0,0,0,0,0x10], // 1 instr: Load(Bool), inputs len 0, outputs len=1: string len 2^60
        vec![1, 0, 0, 0, 1, 0xfc, 0,0,0,0x10], // string len 2^28
    ] {
        let t = std::time::Instant::now();
        let r = mzkh::catch(|| ZkirRelation::read_relation(&mut &bytes[..]).map(|_| ()).map_err(|e| e.to_string()));
        println!("{:02x?} -> {:?} {:?}", bytes, r, t.elapsed());
    }
}
