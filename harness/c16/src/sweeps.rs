//! The mutation sweeps: points and scalars, architecture descriptor, MidnightVK (+ verification
//! with every key that decodes).
use ff::Field;
use group::{prime::PrimeCurveAffine, Curve, Group, GroupEncoding, UncompressedEncoding};
use midnight_curves::{G1Affine, G1Projective, G2Affine, G2Projective};
use midnight_proofs::{
    plonk::ConstraintSystem,
    utils::SerdeFormat,
};
use midnight_zk_stdlib::{MidnightVK, ZkStdLib, ZkStdLibArch};
use num_bigint::BigUint;
use num_traits::{Num, One};
use rand::Rng;
use serde_json::json;

use crate::{
    hex, io_class, mutate,
    objects::{KeySet, Objects},
    Run, F, FORMATS,
};

const P_HEX: &str = "1a0111ea397fe69a4b1ba7b6434bacd764774b84f38512bf6730d2a0f6b0f6241eabfffeb153ffffb9feffffffffaaab";
const R_HEX: &str = "73eda753299d7d483339d80809a1d80553bda402fffe5bfeffffffff00000001";

fn be48(v: &BigUint) -> Vec<u8> {
    let b = v.to_bytes_be();
    let mut out = vec![0u8; 48 - b.len().min(48)];
    out.extend_from_slice(&b[b.len().saturating_sub(48)..]);
    out
}

fn le32(v: &BigUint) -> Vec<u8> {
    let mut b = v.to_bytes_le();
    b.resize(32, 0);
    b.truncate(32);
    b
}

/// Scalars and points, each format, boundary classes.
pub fn run_points(run: &mut Run, o: &Objects) {
    let mut rng = run.ctx.rng("points");
    let p = BigUint::from_str_radix(P_HEX, 16).unwrap();
    let r = BigUint::from_str_radix(R_HEX, 16).unwrap();
    let one = BigUint::one();
    let n_rand = if run.ctx.quick() { 12 } else { 120 };

    // --- scalars -------------------------------------------------------------------------
    let mut scalars: Vec<(String, Vec<u8>)> = vec![
        ("zero".into(), vec![0u8; 32]),
        ("one".into(), le32(&one)),
        ("r-1".into(), le32(&(&r - &one))),
        ("r".into(), le32(&r)),
        ("r+1".into(), le32(&(&r + &one))),
        ("max".into(), vec![0xff; 32]),
        ("2^255".into(), le32(&(BigUint::one() << 255))),
        ("short31".into(), vec![1u8; 31]),
        ("empty".into(), vec![]),
        ("long33".into(), vec![0u8; 33]),
    ];
    for i in 0..n_rand {
        scalars.push((format!("honest{i}"), {
            use ff::PrimeField;
            F::random(&mut rng).to_repr().as_ref().to_vec()
        }));
        scalars.push((format!("random{i}"), mutate::random_bytes(32, &mut rng)));
    }
    // each limb boundary of r (little-endian limbs of 8 bytes): r with one limb +-1
    for limb in 0..4 {
        let d = BigUint::one() << (64 * limb);
        scalars.push((format!("r+2^{}", 64 * limb), le32(&(&r + &d))));
        scalars.push((format!("r-2^{}", 64 * limb), le32(&(&r - &d))));
    }
    for (kind, bytes) in &scalars {
        // proof/transcript format: Hashable::read = from_repr
        let ans = run.guarded("fq-repr", "fq-repr", bytes, 4096, || {
            use midnight_proofs::transcript::Hashable;
            <F as Hashable<blake2b_simd::State>>::read(&mut &bytes[..])
        });
        let a = match ans {
            None => "panic".into(),
            Some(Ok(v)) => {
                use ff::PrimeField;
                if v.to_repr().as_ref() != &bytes[..32] {
                    run.ctx.oracle_fail(
                        "fq-repr:accepted-noncanonical",
                        "the proof scalar decoder accepted a non-canonical encoding",
                        json!({"bytes_hex": hex(bytes), "decoded": mzkh::fe_hex(&v)}),
                    );
                }
                format!("ok {}", mzkh::fe_hex(&v))
            }
            Some(Err(e)) => format!("err {}", io_class(&e)),
        };
        let k = kind.trim_end_matches(char::is_numeric);
        // the 33-byte case reads 32 bytes and leaves one: the model gets the exact-size prefix
        let req = if bytes.len() > 32 { &bytes[..32] } else { &bytes[..] };
        run.case(&format!("fq-repr:{k}"), a.starts_with("ok"), &format!("fq repr {}", hex(req)), &a);
        // RawBytes/Processed field format of proving keys: SerdeObject::read_raw (Montgomery limbs)
        let ans = run.guarded("fq-raw", "fq-raw", bytes, 4096, || {
            use midnight_curves::serde::SerdeObject;
            <F as SerdeObject>::read_raw(&mut &bytes[..])
        });
        let a = match ans {
            None => "panic".into(),
            Some(Ok(v)) => {
                use midnight_curves::serde::SerdeObject;
                if v.to_raw_bytes() != bytes[..32] {
                    run.ctx.oracle_fail(
                        "fq-raw:accepted-noncanonical",
                        "the RawBytes scalar decoder accepted a non-canonical limb vector",
                        json!({"bytes_hex": hex(bytes), "decoded": mzkh::fe_hex(&v)}),
                    );
                }
                format!("ok {}", mzkh::fe_hex(&v))
            }
            Some(Err(e)) => format!("err {}", io_class(&e)),
        };
        run.case(&format!("fq-raw:{k}"), a.starts_with("ok"), &format!("fq raw {}", hex(req)), &a);
    }

    // --- G1 --------------------------------------------------------------------------------
    let mut honest: Vec<G1Affine> = vec![G1Affine::generator(), (G1Projective::generator() * F::from(2)).to_affine()];
    for _ in 0..n_rand {
        honest.push((G1Projective::generator() * F::random(&mut rng)).to_affine());
    }
    for (i, pt) in honest.iter().enumerate() {
        let c = pt.to_bytes().as_ref().to_vec();
        let u = pt.to_uncompressed().as_ref().to_vec();
        run.g1_case(0, &c, "honest");
        run.g1_case(1, &u, "honest");
        // all 8 values of the three flag bits
        for fl in 0..8u8 {
            let mut m = c.clone();
            m[0] = (m[0] & 0x1f) | (fl << 5);
            run.g1_case(0, &m, "flags");
            let mut m = u.clone();
            m[0] = (m[0] & 0x1f) | (fl << 5);
            run.g1_case(1, &m, "flags");
        }
        // compressed encoding inside an uncompressed slot, with arbitrary trailing bytes
        let mut m = c.clone();
        m.extend(mutate::random_bytes(48, &mut rng));
        run.g1_case(1, &m, "compressed-in-slot");
        // uncompressed with the other y, with y+1, with y >= p
        let mut m = u.clone();
        let y = BigUint::from_bytes_be(&u[48..]);
        m[48..].copy_from_slice(&be48(&(&p - &y)));
        run.g1_case(1, &m, "neg-y");
        m[48..].copy_from_slice(&be48(&(&y + &one)));
        run.g1_case(1, &m, "off-curve");
        m[48..].copy_from_slice(&be48(&(&y + &p)));
        run.g1_case(1, &m, "y>=p");
        if i < 6 || !run.ctx.quick() {
            for _ in 0..(if run.ctx.quick() { 6 } else { 24 }) {
                run.g1_case(0, &mutate::flip_bit(&c, &mut rng), "bitflip");
                run.g1_case(1, &mutate::flip_bit(&u, &mut rng), "bitflip");
            }
            for t in [0usize, 1, 47] {
                run.g1_case(0, &c[..t], "short");
            }
            for t in [0usize, 48, 95] {
                run.g1_case(1, &u[..t], "short");
            }
        }
    }
    // x around p, x = 0, small x (on the curve but almost never in the subgroup)
    let mut xs: Vec<(String, BigUint)> = vec![
        ("x=0".into(), BigUint::from(0u8)),
        ("x=p-1".into(), &p - &one),
        ("x=p".into(), p.clone()),
        ("x=p+1".into(), &p + &one),
        ("x=2^381-1".into(), (BigUint::one() << 381) - &one),
    ];
    for x in 1u32..(if run.ctx.quick() { 24 } else { 200 }) {
        xs.push(("small-x".into(), BigUint::from(x)));
    }
    for (kind, x) in &xs {
        for sign in [0u8, 0x20] {
            let mut c = be48(x);
            c[0] = (c[0] & 0x1f) | 0x80 | sign;
            run.g1_case(0, &c, kind);
            // the same point (when it exists) in uncompressed form: accepted without a subgroup check
            if let Some(pt) = Option::<G1Affine>::from(G1Affine::from_bytes_unchecked(&{
                let mut r = <G1Affine as GroupEncoding>::Repr::default();
                r.as_mut().copy_from_slice(&c);
                r
            })) {
                run.g1_case(1, pt.to_uncompressed().as_ref(), &format!("{kind}-uncompressed"));
            }
            c.extend_from_slice(&[0u8; 48]);
            run.g1_case(1, &c, &format!("{kind}-in-slot"));
        }
    }
    // infinity encodings
    for (first, tail_nonzero, kind) in [
        (0xc0u8, false, "inf"),
        (0xc0, true, "inf-nonzero-tail"),
        (0xe0, false, "inf-with-sign"),
        (0xc1, false, "inf-low-bits"),
        (0x40, false, "inf-uncompressed-flag"),
        (0x60, false, "inf-uncompressed-sign"),
        (0x00, false, "all-zero"),
        (0x20, false, "sign-only"),
    ] {
        for (fi, n) in [(0usize, 48usize), (1, 96)] {
            let mut m = vec![0u8; n];
            m[0] = first;
            if tail_nonzero {
                m[n - 1] = 1;
            }
            run.g1_case(fi, &m, kind);
            if tail_nonzero && fi == 1 {
                // non-zero byte only in the second half
                let mut m2 = vec![0u8; n];
                m2[0] = first;
                m2[60] = 7;
                run.g1_case(fi, &m2, kind);
            }
        }
    }
    for _ in 0..n_rand {
        run.g1_case(0, &mutate::random_bytes(48, &mut rng), "random");
        run.g1_case(1, &mutate::random_bytes(96, &mut rng), "random");
        let mut m = mutate::random_bytes(96, &mut rng);
        m[0] &= 0x1f;
        run.g1_case(1, &m, "random-noflags");
    }

    // --- G2 (verifier parameters) --------------------------------------------------------------
    let mut g2s: Vec<G2Affine> = vec![G2Affine::generator()];
    for _ in 0..(if run.ctx.quick() { 2 } else { 12 }) {
        g2s.push((G2Projective::generator() * F::random(&mut rng)).to_affine());
    }
    for pt in &g2s {
        let c = pt.to_bytes().as_ref().to_vec();
        let u = pt.to_uncompressed().as_ref().to_vec();
        run.g2_case(0, &c, "honest");
        run.g2_case(1, &u, "honest");
        for fl in 0..8u8 {
            let mut m = c.clone();
            m[0] = (m[0] & 0x1f) | (fl << 5);
            run.g2_case(0, &m, "flags");
            let mut m = u.clone();
            m[0] = (m[0] & 0x1f) | (fl << 5);
            run.g2_case(1, &m, "flags");
        }
        let mut m = c.clone();
        m.extend(mutate::random_bytes(96, &mut rng));
        run.g2_case(1, &m, "compressed-in-slot");
        for _ in 0..(if run.ctx.quick() { 4 } else { 30 }) {
            run.g2_case(0, &mutate::flip_bit(&c, &mut rng), "bitflip");
            run.g2_case(1, &mutate::flip_bit(&u, &mut rng), "bitflip");
        }
        // each coordinate half replaced by p (non-canonical)
        for half in 0..2 {
            let mut m = c.clone();
            let flags = m[0] & 0xe0;
            m[48 * half..48 * half + 48].copy_from_slice(&be48(&p));
            m[0] = (m[0] & 0x1f) | flags;
            run.g2_case(0, &m, "coord=p");
        }
        for half in 0..4 {
            let mut m = u.clone();
            m[48 * half..48 * half + 48].copy_from_slice(&be48(&p));
            run.g2_case(1, &m, "coord=p");
        }
    }
    for x in 0u32..(if run.ctx.quick() { 6 } else { 40 }) {
        for sign in [0u8, 0x20] {
            // x = (x0 = x, x1 = 1) and (x0 = x, x1 = 0)
            for x1 in [0u32, 1] {
                let mut c = be48(&BigUint::from(x1));
                c.extend(be48(&BigUint::from(x)));
                c[0] = (c[0] & 0x1f) | 0x80 | sign;
                run.g2_case(0, &c, "small-x");
                // the same point (when it exists) uncompressed: G2 checks the subgroup here too
                if let Some(pt) = Option::<G2Affine>::from(G2Affine::from_bytes_unchecked(&{
                    let mut r = <G2Affine as GroupEncoding>::Repr::default();
                    r.as_mut().copy_from_slice(&c);
                    r
                })) {
                    run.g2_case(1, pt.to_uncompressed().as_ref(), "small-x-uncompressed");
                }
                let mut slot = c.clone();
                slot.extend_from_slice(&[0u8; 96]);
                run.g2_case(1, &slot, "small-x-in-slot");
            }
        }
    }
    for (first, kind) in [(0xc0u8, "inf"), (0xe0, "inf-with-sign"), (0x40, "inf-uncompressed-flag"), (0x00, "all-zero")] {
        for (fi, n) in [(0usize, 96usize), (1, 192)] {
            let mut m = vec![0u8; n];
            m[0] = first;
            run.g2_case(fi, &m, kind);
            m[n - 1] = 1;
            run.g2_case(fi, &m, &format!("{kind}-nonzero-tail"));
        }
    }
    for t in [0usize, 1, 95] {
        run.g2_case(0, &o.vp_bytes[0][..t], "short");
    }
    for t in [0usize, 96, 191] {
        run.g2_case(1, &o.vp_bytes[1][..t], "short");
    }
}

fn arch_bits(a: &[u8]) -> String {
    a[4..15].iter().map(|b| if *b == 1 { '1' } else { '0' }).collect()
}

/// Architecture descriptor: every truncation, every byte x 256 values, appended bytes, random;
/// column bookkeeping of `ZkStdLib::configure` for many architectures.
pub fn run_arch(run: &mut Run, o: &Objects) {
    let mut rng = run.ctx.rng("arch");
    let consts = run.consts.clone();
    let honest: Vec<Vec<u8>> = vec![o.a.vk_bytes[0][..16].to_vec(), o.b.vk_bytes[0][..16].to_vec()];
    let mut cases: Vec<(String, Vec<u8>)> = vec![];
    for h in &honest {
        for t in 0..=16 {
            cases.push(("truncate".into(), h[..t].to_vec()));
        }
        for i in 0..16 {
            for v in 0..=255u8 {
                cases.push((format!("byte{i}"), mutate::subst_byte(h, i, v)));
            }
        }
        cases.push(("appended".into(), mutate::append(h, &[0xaa, 0xbb])));
    }
    for _ in 0..(if run.ctx.quick() { 50 } else { 2000 }) {
        cases.push(("random".into(), mutate::random_bytes(16, &mut rng)));
        let mut m = mutate::random_bytes(16, &mut rng);
        m[..4].copy_from_slice(&[1, 0, 0, 0]);
        for b in m[4..15].iter_mut() {
            *b &= 1;
        }
        cases.push(("random-wellformed".into(), m));
    }
    for (kind, bytes) in cases {
        let r = run.guarded("arch-read", "arch-read", &bytes, 4096, || {
            let mut rd = &bytes[..];
            let r = ZkStdLibArch::read(&mut rd);
            (r, rd.len())
        });
        let a = match r {
            None => "panic".into(),
            Some((Ok(arch), rest)) => {
                let mut w = vec![];
                arch.write(&mut w).unwrap();
                if w[..] != bytes[..bytes.len() - rest] {
                    run.ctx.oracle_fail(
                        "arch-read:accepted-noncanonical",
                        "ZkStdLibArch::read accepted bytes that are not the encoding of the decoded architecture",
                        json!({"bytes_hex": hex(&bytes), "reencoded": hex(&w)}),
                    );
                }
                format!("ok {} {} rest={rest}", arch_bits(&w), w[15])
            }
            Some((Err(e), _)) => format!("err {}", io_class(&e)),
        };
        run.case(&format!("arch:{kind}"), a.starts_with("ok"), &format!("arch {consts} {}", hex(&bytes)), &a);
    }

    // column bookkeeping
    let mut archs: Vec<(u16, u8)> = vec![];
    let nrs: &[u8] = &[0, 1, 2, 3, 4];
    if run.ctx.quick() {
        archs.push((0, 1));
        for i in 0..11 {
            archs.push((1 << i, 1));
            archs.push((1 << i, 4));
        }
        for i in 0..11 {
            for j in (i + 1)..11 {
                if (i + j) % 3 == 0 {
                    archs.push(((1 << i) | (1 << j), 2));
                }
            }
        }
        archs.push((0x7ff, 4));
        for &nr in nrs {
            archs.push((0, nr));
            archs.push((0b11, nr));
        }
        for _ in 0..12 {
            archs.push((rng.gen_range(0..2048), nrs[rng.gen_range(0..nrs.len())]));
        }
    } else {
        for m in 0..2048u16 {
            archs.push((m, nrs[(m % 5) as usize]));
        }
        for &nr in nrs {
            archs.push((0, nr));
            archs.push((0x7ff, nr));
        }
    }
    archs.sort();
    archs.dedup();
    for (mask, nr) in archs {
        let bit = |i: usize| mask & (1 << i) != 0;
        let arch = ZkStdLibArch {
            jubjub: bit(0),
            poseidon: bit(1),
            sha2_256: bit(2),
            sha2_512: bit(3),
            keccak_256: bit(4),
            sha3_256: bit(5),
            blake2b: bit(6),
            secp256k1: bit(7),
            bls12_381: bit(8),
            base64: bit(9),
            automaton: bit(10),
            nr_pow2range_cols: nr,
        };
        // layout order of the bits = field order of the struct = order of `write`
        let mut w = vec![];
        arch.write(&mut w).unwrap();
        let key = format!("configure:{}:{nr}", arch_bits(&w));
        let r = run.guarded("configure", &key, &w, 256 << 20, || {
            let mut cs = ConstraintSystem::<F>::default();
            let _ = ZkStdLib::configure(&mut cs, arch);
            cs.num_advice_columns()
        });
        let a = match r {
            None => "panic".into(),
            Some(n) => format!("{n}"),
        };
        run.case(
            "archcols",
            mask != 0,
            &format!("archcols {consts} {} {nr}", arch_bits(&w)),
            &a,
        );
    }
}

const Q61: u128 = (1u128 << 61) - 1;

fn dg_step(acc: u128, v: &BigUint) -> u128 {
    let m: BigUint = v % BigUint::from(Q61);
    let m: u128 = m.to_u64_digits().first().copied().unwrap_or(0) as u128;
    (acc * 1000003 + m + 1) % Q61
}

fn dg_point(acc: u128, p: &G1Projective) -> u128 {
    let a = p.to_affine();
    if bool::from(a.is_identity()) {
        dg_step(dg_step(acc, &BigUint::from(0u8)), &BigUint::from(0u8))
    } else {
        let x = BigUint::from_bytes_be(&a.x().to_bytes_be()) + 1u8;
        let y = BigUint::from_bytes_be(&a.y().to_bytes_be()) + 1u8;
        dg_step(dg_step(acc, &x), &y)
    }
}

/// One MidnightVK case: real decode (+ verification when it decodes), model request.
fn mvk_case(run: &mut Run, o: &Objects, ks: &KeySet, is_a: bool, fi: usize, bytes: &[u8], kind: &str, emit_points: bool) {
    let (fmt, fs) = FORMATS[fi];
    let size = if fi == 0 { 48 } else { 96 };
    let shape = run.shape_for(bytes);
    // every chunk at a commitment position is also a point-level case (and feeds the memo table)
    if emit_points {
        if let Some((nf, np, _)) = shape {
            let mut at = 27;
            for _ in 0..(nf + np) {
                if at + size > bytes.len() {
                    break;
                }
                run.g1_case(fi, &bytes[at..at + size], "vk-chunk");
                at += size;
            }
        }
    }
    let key = format!("midnightvk-read:{}:{fs}", ks.name);
    let r = run.guarded("midnightvk-read", &key, bytes, 64 << 20, || {
        let mut rd = bytes;
        let r = MidnightVK::read(&mut rd, fmt);
        (r, rd.len())
    });
    let (nf, np, deg) = shape.unwrap_or((0, 0, 0));
    let op = format!("mvk {fs} {nf} {np} {deg} {} {}", run.consts, hex(bytes));
    let ans = match r {
        None => "panic".to_string(),
        Some((Err(e), _)) => format!("err {}", io_class(&e)),
        Some((Ok(vk), rest)) => {
            let mut w = vec![];
            vk.write(&mut w, fmt).unwrap();
            let canon = w[..] == bytes[..bytes.len() - rest];
            if !canon {
                run.ctx.oracle_fail(
                    &format!("midnightvk-read:{fs}:accepted-noncanonical"),
                    "MidnightVK::read (checked format) accepted bytes that are not the encoding of the decoded key",
                    json!({"format": fs, "bytes_hex": hex(bytes), "reencoded": hex(&w)}),
                );
            }
            let pi = u32::from_le_bytes(w[17..21].try_into().unwrap());
            let mut dg = 7u128;
            for c in vk.vk().fixed_commitments() {
                dg = dg_point(dg, c);
            }
            for c in vk.vk().permutation().commitments() {
                dg = dg_point(dg, c);
            }
            // a key that decoded: verifying the fixed valid proof with it must return a value
            let vr = run.guarded("verify-after-decode", &format!("verify-after-decode:{}:{fs}", ks.name), bytes, 256 << 20, || {
                if is_a {
                    o.verify_a(&vk, &ks.proof)
                } else {
                    o.verify_b(&vk, &ks.proof)
                }
            });
            let vclass = match &vr {
                None => "panic".to_string(),
                Some(Ok(())) => "accept".to_string(),
                Some(Err(e)) => format!("reject:{}", format!("{e:?}").split(['(', ' ', '{']).next().unwrap_or("?")),
            };
            run.ctx.count(&format!("verify-after-decode:{vclass}"));
            if canon && rest == 0 && bytes == &ks.vk_bytes[fi][..] && vclass != "accept" {
                run.ctx.oracle_fail(
                    &format!("honest-key-roundtrip-rejects:{}:{fs}", ks.name),
                    "the honest key, written and read back, no longer verifies the honest proof",
                    json!({"relation": ks.name, "format": fs, "verdict": vclass}),
                );
            }
            format!(
                "ok {} {} mb={} pi={} k={} nf={} np={} dg={} rest={} canon={}",
                arch_bits(&w),
                w[15],
                w[16],
                pi,
                vk.k(),
                vk.vk().fixed_commitments().len(),
                vk.vk().permutation().commitments().len(),
                dg,
                rest,
                canon as u8
            )
        }
    };
    run.case(&format!("mvk-{fs}:{kind}"), ans.starts_with("ok") || !ans.ends_with("eof"), &op, &ans);
}

/// MidnightVK: every truncation, all 256 values of every header/length byte, flips, splices,
/// appended bytes, cross-format and cross-relation reads.
pub fn run_mvk(run: &mut Run, o: &Objects) {
    let mut rng = run.ctx.rng("mvk");
    let quick = run.ctx.quick();
    for (ks, is_a) in [(&o.a, true), (&o.b, false)] {
        for fi in 0..2 {
            let size = if fi == 0 { 48 } else { 96 };
            let h = ks.vk_bytes[fi].clone();
            mvk_case(run, o, ks, is_a, fi, &h, "honest", true);
            // regression cases of D6 and of its two follow-ups (stay in the quick tier)
            mvk_case(run, o, ks, is_a, fi, &mutate::subst_byte(&h, 15, 200), "regress-pow2=200", false);
            mvk_case(run, o, ks, is_a, fi, &mutate::subst_byte(&h, 23, h[23].wrapping_sub(1)), "regress-nfixed-1", false);
            mvk_case(run, o, ks, is_a, fi, &mutate::subst_byte(&h, 23, h[23].wrapping_add(1)), "regress-nfixed+1", false);
            mvk_case(run, o, ks, is_a, fi, &mutate::subst_byte(&h, 22, 31), "regress-k=31", false);
            mvk_case(run, o, ks, is_a, fi, &mutate::subst_byte(&h, 22, 32), "regress-k=32", false);
            {
                // count lowered AND one commitment dropped (the other half of D6(b))
                let mut m = mutate::subst_byte(&h, 23, h[23].wrapping_sub(1));
                m.drain(27..27 + size);
                mvk_case(run, o, ks, is_a, fi, &m, "regress-nfixed-1-dropped", false);
            }
            // every truncation point (relation B in the quick tier: chunk boundaries +-1 only)
            for t in 0..h.len() {
                let near_boundary = t < 40 || (t + size - 27) % size <= 1 || (t + size - 27) % size == size - 1;
                if is_a || !quick || near_boundary {
                    mvk_case(run, o, ks, is_a, fi, &h[..t], "truncate", false);
                }
            }
            // all 256 values of every header / length byte
            for i in 0..27 {
                let full = is_a || !quick || i >= 15;
                for v in 0..=255u8 {
                    if full || v < 4 || v == 255 {
                        mvk_case(run, o, ks, is_a, fi, &mutate::subst_byte(&h, i, v), &format!("hdr{i}"), false);
                    }
                }
            }
            // body: flag bits of commitments, bit flips, substitutions, splices
            let n_commit = (h.len() - 27) / size;
            for c in 0..n_commit {
                if quick && c % 4 != 1 && c + 1 != n_commit {
                    continue;
                }
                for fl in 0..8u8 {
                    let at = 27 + c * size;
                    let m = mutate::subst_byte(&h, at, (h[at] & 0x1f) | (fl << 5));
                    mvk_case(run, o, ks, is_a, fi, &m, "body-flags", true);
                }
            }
            let n_flip = if quick { 60 } else { 1500 };
            for _ in 0..n_flip {
                mvk_case(run, o, ks, is_a, fi, &mutate::flip_bit_in(&h, 27, h.len(), &mut rng), "body-bitflip", true);
            }
            for _ in 0..(n_flip / 4) {
                let i = rng.gen_range(27..h.len());
                mvk_case(run, o, ks, is_a, fi, &mutate::subst_byte(&h, i, rng.gen()), "body-byte", true);
            }
            let other = if is_a { &o.b.vk_bytes[fi] } else { &o.a.vk_bytes[fi] };
            for _ in 0..(if quick { 12 } else { 200 }) {
                // a whole commitment replaced by another commitment of this key / of the other key
                let c = rng.gen_range(0..n_commit);
                let d = rng.gen_range(0..n_commit);
                mvk_case(run, o, ks, is_a, fi, &mutate::splice(&h, 27 + c * size, &h, 27 + d * size, size), "splice-own", true);
                let d = rng.gen_range(0..(other.len() - 27) / size);
                mvk_case(run, o, ks, is_a, fi, &mutate::splice(&h, 27 + c * size, other, 27 + d * size, size), "splice-other-key", true);
                // unaligned splice
                let at = rng.gen_range(27..h.len());
                let from = rng.gen_range(0..other.len());
                let len = rng.gen_range(1..64);
                mvk_case(run, o, ks, is_a, fi, &mutate::splice(&h, at, other, from, len), "splice-unaligned", true);
            }
            // special chunks at a commitment position
            {
                let c = rng.gen_range(0..n_commit);
                let at = 27 + c * size;
                let mut inf = vec![0u8; size];
                inf[0] = if fi == 0 { 0xc0 } else { 0x40 };
                mvk_case(run, o, ks, is_a, fi, &mutate::splice(&h, at, &inf, 0, size), "chunk-infinity", true);
                mvk_case(run, o, ks, is_a, fi, &mutate::splice(&h, at, &vec![0u8; size], 0, size), "chunk-zero", true);
                mvk_case(run, o, ks, is_a, fi, &mutate::splice(&h, at, &vec![0xffu8; size], 0, size), "chunk-ff", true);
                if fi == 1 {
                    // compressed encoding of the same commitment in the uncompressed slot
                    let pc = &ks.vk_bytes[0][27 + c * 48..27 + c * 48 + 48];
                    let mut chunk = pc.to_vec();
                    chunk.extend(mutate::random_bytes(48, &mut rng));
                    mvk_case(run, o, ks, is_a, fi, &mutate::splice(&h, at, &chunk, 0, size), "chunk-compressed-in-slot", true);
                }
            }
            // appended bytes
            for extra in [vec![0u8], vec![0xffu8; 48], mutate::random_bytes(200, &mut rng), h.clone()] {
                mvk_case(run, o, ks, is_a, fi, &mutate::append(&h, &extra), "appended", false);
            }
            // the other format's bytes, the other relation's key under this relation's verifier
            mvk_case(run, o, ks, is_a, fi, &ks.vk_bytes[1 - fi], "cross-format", false);
            mvk_case(run, o, ks, is_a, fi, other, "other-relation-key", true);
        }
    }
    // arbitrary bytes
    for _ in 0..(if quick { 40 } else { 1000 }) {
        let n = rng.gen_range(0..400);
        let m = mutate::random_bytes(n, &mut rng);
        let fi = rng.gen_range(0..2);
        mvk_case(run, o, &o.a, true, fi, &m, "random", false);
        // random body behind an honest header
        let mut m2 = o.a.vk_bytes[fi][..27].to_vec();
        m2.extend(mutate::random_bytes(n, &mut rng));
        mvk_case(run, o, &o.a, true, fi, &m2, "random-body", false);
    }
    let _ = SerdeFormat::Processed;
}
