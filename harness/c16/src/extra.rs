//! Additional sweeps:
//! * `run_vkdeg`: the public `VerifyingKey::read` / `read_from_cs` for constraint systems of degree
//!   3..=9 and every value of the `k` byte (the boundary `k = S - ceil(log2(degree - 1)) +- 1`);
//! * `run_iroff`: the off-circuit guards of `IrValue::into_bytes` / `IrValue::from_bytes`
//!   (the mirrors `intoBytesNativeOff` / `fromBytesStatic` of the Lean model);
//! * `run_length_fields` / `ir_length_fields`: every length-prefixed / count field of the
//!   verifier-facing decoders overwritten with huge values at its exact offset (offsets derived
//!   from the writers), peak allocation bounded by `ALLOC_C * len + c0`;
//! * `run_count_mismatch`: keys whose header counts disagree with the circuit by +-1.
use ff::PrimeField;
use group::{Group, GroupEncoding};
use midnight_curves::G1Projective;
use midnight_proofs::{
    circuit::{Layouter, SimpleFloorPlanner},
    plonk::{Circuit, ConstraintSystem, Constraints, Error, Expression, VerifyingKey},
    poly::{kzg::KZGCommitmentScheme, Rotation},
    utils::SerdeFormat,
};
use midnight_zk_stdlib::{MidnightVK, Relation};
use midnight_zkir::{Instruction, IrType, IrValue, Operation, ZkirRelation};
use serde_json::json;

use crate::{
    hex, io_class,
    objects::{Bls, Objects},
    sweeps2::{irb_case, IrbCases},
    Run, F, FORMATS,
};

type Vk = VerifyingKey<F, KZGCommitmentScheme<Bls>>;

/// One advice column (in the permutation), one fixed column, one gate `f * a^(degree-1)`.
fn degree_cs(cs: &mut ConstraintSystem<F>, degree: usize) {
    let a = cs.advice_column();
    let f = cs.fixed_column();
    cs.enable_equality(a);
    cs.create_gate("high degree", |meta| {
        let a = meta.query_advice(a, Rotation::cur());
        let f = meta.query_fixed(f, Rotation::cur());
        let mut poly: Expression<F> = f;
        for _ in 0..degree - 1 {
            poly = poly * a.clone();
        }
        Constraints::without_selector(vec![poly])
    });
}

/// A circuit whose constraint system has the degree given as its parameter: lets the sweep go
/// through the PUBLIC `VerifyingKey::read::<_, DegCircuit>`.
#[derive(Clone, Default)]
struct DegCircuit(usize);

impl Circuit<F> for DegCircuit {
    type Config = ();
    type FloorPlanner = SimpleFloorPlanner;
    type Params = usize;
    fn without_witnesses(&self) -> Self {
        self.clone()
    }
    fn params(&self) -> usize {
        self.0
    }
    fn configure_with_params(meta: &mut ConstraintSystem<F>, degree: usize) -> Self::Config {
        degree_cs(meta, degree)
    }
    fn configure(meta: &mut ConstraintSystem<F>) -> Self::Config {
        degree_cs(meta, 3)
    }
    fn synthesize(&self, _config: (), _layouter: impl Layouter<F>) -> Result<(), Error> {
        Ok(())
    }
}

pub fn run_vkdeg(run: &mut Run) {
    let point = G1Projective::generator().to_bytes();
    let s = F::S;
    for degree in 3..=9usize {
        let mut cs = ConstraintSystem::<F>::default();
        degree_cs(&mut cs, degree);
        let real_degree = cs.degree();
        let ceil_log2 = ((real_degree as u64) - 1).next_power_of_two().trailing_zeros();
        let boundary = s - ceil_log2;
        for k in 0..=255u8 {
            let near = (k as i64 - boundary as i64).abs() <= 2 || (k as i64 - s as i64).abs() <= 1;
            if run.ctx.quick() && !(near || k < 4 || k % 16 == 0 || k == 255) {
                continue;
            }
            let mut bytes = vec![0x03u8, k];
            bytes.extend_from_slice(&1u32.to_le_bytes());
            bytes.extend_from_slice(point.as_ref());
            bytes.extend_from_slice(point.as_ref());
            let key = format!("vk-read:degree{degree}");
            let r = run.guarded("vk-read(degree 3..9)", &key, &bytes, 64 << 20, || {
                // the public entry point (configures the circuit itself) and `read_from_cs`
                let a = Vk::read::<_, DegCircuit>(&mut &bytes[..], SerdeFormat::Processed, degree).map(|vk| vk.get_domain().k());
                let mut cs = ConstraintSystem::<F>::default();
                degree_cs(&mut cs, degree);
                let b = Vk::read_from_cs(&mut &bytes[..], SerdeFormat::Processed, cs).map(|vk| vk.get_domain().k());
                (a, b)
            });
            let ans = match r {
                None => "panic".to_string(),
                Some((a, b)) => {
                    let f = |r: &std::io::Result<u32>| match r {
                        Ok(_) => "ok".to_string(),
                        Err(e) => format!("err {}", io_class(e)),
                    };
                    let (fa, fb) = (f(&a), f(&b));
                    // the property, stated directly: a key iff the extended domain exists
                    let expect_ok = (k as u32) <= boundary;
                    if fa != fb || (fa == "ok") != expect_ok {
                        run.ctx.oracle_fail(
                            &format!("{key}:wrong-verdict"),
                            &format!("VerifyingKey::read for a constraint system of degree {real_degree}, k byte {k}: read = {fa}, read_from_cs = {fb}, but the extended domain exists iff k <= {boundary}"),
                            json!({"degree": real_degree, "k": k, "bytes_hex": hex(&bytes)}),
                        );
                    }
                    fa
                }
            };
            if ans != "panic" {
                run.case(&format!("vkdeg:{}", if near { "boundary" } else { "other" }), near, &format!("vkdeg {real_degree} {k}"), &ans);
            }
        }
    }
}

fn big(x: &str) -> num_bigint::BigUint {
    use num_traits::Num;
    num_bigint::BigUint::from_str_radix(x, 16).unwrap()
}

pub fn run_iroff(run: &mut Run) {
    let r_minus_1 = big("73eda753299d7d483339d80809a1d80553bda402fffe5bfeffffffff00000000");
    let vals: Vec<num_bigint::BigUint> = vec![
        big("0"),
        big("7"),
        big("ff"),
        big("100"),
        (num_bigint::BigUint::from(1u8) << 248) - 1u8,
        num_bigint::BigUint::from(1u8) << 248,
        r_minus_1,
    ];
    let ns: Vec<u64> = vec![0, 1, 2, 30, 31, 32, 33, 34, 64, 255, 256, 65536, 1 << 31, (1 << 32) - 1, 1 << 32, (1 << 32) + 1, (1 << 32) + 32, (1 << 32) + 33, 1 << 63, u64::MAX];
    let mut reported = std::collections::HashSet::new();
    for n in &ns {
        for v in &vals {
            let fam = if *n >= 1 << 32 { "n>=2^32" } else { "small" };
            let x: F = mzkh::fe_from_big(v);
            let r = mzkh::catch(|| IrValue::Native(x).into_bytes(*n as usize));
            run.ctx.count("guarded:irvalue-into_bytes");
            let ans = match r {
                Err(msg) => {
                    // one report per family (the first input is the replay)
                    run.ctx.count(&format!("oracle-hit:zkir-offcircuit:into_bytes:{fam}:panic"));
                    if reported.insert(fam) {
                        run.ctx.oracle_fail(
                            &format!("zkir-offcircuit:into_bytes:{fam}:panic"),
                            &format!("IrValue::Native(v).into_bytes({n}) panicked: {msg}"),
                            json!({"n": n, "v": mzkh::big_hex(v), "panic": msg}),
                        );
                    }
                    continue;
                }
                Ok(Ok(_)) => "ok".to_string(),
                Ok(Err(e)) => {
                    let d = format!("{e:?}");
                    format!("err {}", if d.contains("cannot convert") { "convert" } else { "other" })
                }
            };
            run.case("iroff:into_bytes", *n <= 33, &format!("iroff ib {n} {}", mzkh::big_hex(v)), &ans);
        }
    }
    let tys: Vec<(u64, u64, IrType)> = {
        let mut t = vec![(0, 0, IrType::Bool), (2, 0, IrType::Native), (4, 0, IrType::JubjubPoint), (5, 0, IrType::JubjubScalar)];
        for b in [0u32, 1, 7, 8, 9, 255, 256, 257, 65536, u32::MAX] {
            t.push((3, b as u64, IrType::BigUint(b)));
        }
        for n in [0usize, 4, usize::MAX] {
            t.push((1, n as u64, IrType::Bytes(n)));
        }
        t
    };
    for (tt, tp, t) in tys {
        for len in [0usize, 1, 2, 31, 32, 33, 64] {
            // (the identity's encoding for 32 bytes: a valid point)
            let mut bytes = vec![0u8; len];
            if len > 0 {
                bytes[0] = 1;
            }
            let r = run.guarded("irvalue-from_bytes", "zkir-offcircuit:from_bytes", &bytes, 1 << 20, || IrValue::from_bytes(t, &bytes));
            let ans = match r {
                None => continue,
                Some(Ok(_)) => "ok".to_string(),
                Some(Err(e)) => {
                    let d = format!("{e:?}");
                    format!("err {}", if d.contains("is not supported on") { "unsupported" } else { "other" })
                }
            };
            run.case("iroff:from_bytes", true, &format!("iroff fb {tt} {tp} {len}"), &ans);
        }
    }
}

/// Huge values for a length / count field of `width` bytes (little-endian).
fn huge(width: usize) -> Vec<u64> {
    match width {
        1 => vec![0x80, 0xff],
        4 => vec![1 << 24, 1 << 31, (1 << 32) - 1],
        _ => vec![1 << 31, (1 << 32) - 1, 1 << 32, 1 << 40, 1 << 63, u64::MAX],
    }
}

/// The fixed-width count / size fields of `MidnightVK::write`, located by running the writers of
/// the parts: `ZkStdLibArch::write` (length A), then `max_bit_len` (1 byte), `nb_public_inputs`
/// (u32), then `VerifyingKey::write` (whose own length gives the start of the inner key: version
/// byte, `k` byte, `num_fixed_columns` u32, commitments).
pub fn mvk_fields(vk: &MidnightVK, fi: usize, h: &[u8]) -> Vec<(&'static str, usize, usize)> {
    let total = h.len();
    let mut arch = vec![];
    midnight_zk_stdlib::ZkStdLibArch::read(&mut &h[..]).expect("honest architecture").write(&mut arch).unwrap();
    let a = arch.len();
    let mut inner = vec![];
    vk.vk().write(&mut inner, FORMATS[fi].0).unwrap();
    let start = total - inner.len();
    assert_eq!(start, a + 1 + 4, "MidnightVK layout: arch | max_bit_len | nb_public_inputs | vk");
    vec![
        ("arch.version", 0, 4),
        ("arch.nr_pow2range_cols", a - 1, 1),
        ("max_bit_len", a, 1),
        ("nb_public_inputs", a + 1, 4),
        ("vk.version", start, 1),
        ("vk.k", start + 1, 1),
        ("vk.num_fixed_columns", start + 2, 4),
    ]
}

pub const LENGTH_FIELDS: &[&str] = &[
    "MidnightVK: arch.version (u32), arch.nr_pow2range_cols (u8), max_bit_len (u8), nb_public_inputs (u32), vk.version (u8), vk.k (u8), vk.num_fixed_columns (u32)",
    "ZKIR program (bincode varints): Vec<Instruction> length, Vec<String> lengths of inputs / outputs of every instruction, String lengths of every name, the u64/u32 immediates",
    "Automaton serialization (hook): final_states length, transitions length, every 8-byte window of the first 48 bytes",
    "permutation commitments / ParamsVerifierKZG / proofs / ZkStdLibArch flags: no length field (counts come from the constraint system, the schedule or are fixed)",
    "ParamsKZG (g, g_lagrange counts = 2^k of the k word) and MidnightPK polynomial vectors: prover-local, reported only",
];

pub fn run_length_fields(run: &mut Run, o: &Objects) {
    for (ks, is_a) in [(&o.a, true), (&o.b, false)] {
        for fi in 0..2 {
            let (fmt, fs) = FORMATS[fi];
            let h = &ks.vk_bytes[fi];
            for (name, at, width) in mvk_fields(&ks.vk, fi, h) {
                let honest = h[at..at + width].iter().rev().fold(0u64, |a, b| (a << 8) | *b as u64);
                let mut vals = huge(width);
                // +-1 around the honest value: counts that disagree with the circuit
                vals.extend([honest.wrapping_sub(1) & (u64::MAX >> (64 - 8 * width)), (honest + 1) & (u64::MAX >> (64 - 8 * width))]);
                for v in vals {
                    let mut m = h.clone();
                    m[at..at + width].copy_from_slice(&v.to_le_bytes()[..width]);
                    let key = format!("midnightvk-read:length-field:{name}");
                    let r = run.guarded("midnightvk-read(length fields)", &key, &m, 64 << 20, || MidnightVK::read(&mut &m[..], fmt));
                    let cls = match &r {
                        None => "panic".to_string(),
                        Some(Err(e)) => format!("err:{}", io_class(e)),
                        Some(Ok(_)) => "ok".to_string(),
                    };
                    run.ctx.count(&format!("length-field:{name}:{}", cls.split(':').next().unwrap()));
                    // a key that decoded although a field disagrees with the circuit: verifying the
                    // honest proof returns a value
                    if let Some(Ok(vk)) = r {
                        let vr = run.guarded("verify-after-decode(length fields)", &format!("verify-after-decode:length-field:{name}"), &m, 256 << 20, || {
                            if is_a {
                                o.verify_a(&vk, &ks.proof)
                            } else {
                                o.verify_b(&vk, &ks.proof)
                            }
                        });
                        run.ctx.count(&format!(
                            "length-field:{name}:verify:{}",
                            match vr {
                                None => "panic",
                                Some(Ok(())) => "accept",
                                Some(Err(_)) => "reject",
                            }
                        ));
                    }
                    let _ = fs;
                }
            }
        }
    }
}

/// Length fields of a bincode program, located by differential encoding with the crate's own
/// writer: the variant that has ONE more element in exactly one container (or one more byte in one
/// name) first differs from the honest encoding at that container's length field.
pub fn ir_length_fields(cases: &mut IrbCases) {
    use Operation::*;
    let ins = |op: Operation, i: &[&str], o: &[&str]| Instruction { operation: op, inputs: i.iter().map(|s| s.to_string()).collect(), outputs: o.iter().map(|s| s.to_string()).collect() };
    let enc = |p: &[Instruction]| {
        let mut b = vec![];
        ZkirRelation::from_instructions(p).expect("arity").write_relation(&mut b).unwrap();
        b
    };
    let base = vec![
        ins(Load(IrType::Native), &[], &["x", "y"]),
        ins(Poseidon, &["x", "y"], &["h"]),
        ins(Load(IrType::Bytes(4)), &[], &["m"]),
        ins(Publish, &["h", "x"], &[]),
    ];
    let honest = enc(&base);
    let mut variants: Vec<(&str, Vec<Instruction>)> = vec![];
    let mut v = base.clone();
    v.push(ins(Publish, &["y"], &[]));
    variants.push(("program.len", v));
    let mut v = base.clone();
    v[0].outputs.push("z".into());
    variants.push(("instr0.outputs.len", v));
    let mut v = base.clone();
    v[1].inputs.push("x".into());
    variants.push(("instr1.inputs.len", v));
    let mut v = base.clone();
    v[3].inputs.push("y".into());
    variants.push(("instr3.inputs.len", v));
    let mut v = base.clone();
    v[0].outputs[0] = "xx".into();
    variants.push(("instr0.outputs[0].len", v));
    let mut v = base.clone();
    v[1].inputs[1] = "yy".into();
    variants.push(("instr1.inputs[1].len", v));
    let mut v = base.clone();
    v[2].operation = Load(IrType::Bytes(5));
    variants.push(("instr2.load.bytes-size", v));
    for (name, var) in variants {
        let other = enc(&var);
        let at = (0..honest.len().min(other.len())).find(|i| honest[*i] != other[*i]).expect("a differing byte");
        assert_eq!(honest[at] + 1, other[at], "{name}: the differing byte is the length, one larger");
        for (marker, width, vals) in [(0xfcu8, 4usize, vec![1u64 << 24, 1 << 31, (1 << 32) - 1]), (0xfd, 8, vec![1 << 31, (1 << 32) - 1, 1 << 32, 1 << 40, 1 << 63, u64::MAX])] {
            for val in vals {
                let mut m = honest[..at].to_vec();
                m.push(marker);
                m.extend_from_slice(&val.to_le_bytes()[..width]);
                m.extend_from_slice(&honest[at + 1..]);
                irb_case(cases, &m, "length-field");
            }
        }
        // the same field as a plain byte: all "large" single-byte values
        for b in [honest[at] + 1, 100, 250] {
            let mut m = honest.clone();
            m[at] = b;
            irb_case(cases, &m, "length-field");
        }
    }
}
