//! ZKIR programs from untrusted bytes, driven through EVERY consumer a verifier / deployer runs on
//! them: decode (`read_relation` / `read`), compilation with UNKNOWN witnesses
//! (`MidnightCircuit::new(.., Some(8))` + `dummy_synthesize_run`, the pass `public_inputs`, key
//! generation, `min_k` and the cost model all perform), `ZkirRelation::public_inputs` with a benign
//! witness (off-circuit interpreter + dummy pass) and, for programs that compile, `from_relation`
//! / `min_k` / `cost_model` / `setup_vk`.
//!
//! Everything runs in a CHILD process (`h-c16 --irc-child`): a panic is caught there, an
//! allocation beyond `CHILD_CAP` live bytes aborts the child (attributed to its input by the
//! parent), and a watchdog ends a case that runs longer than `CASE_TIMEOUT_S`.
use std::collections::HashMap;
use std::sync::atomic::{AtomicU64, AtomicUsize, Ordering::Relaxed};

use midnight_proofs::{circuit::Value, dev::cost_model::dummy_synthesize_run, poly::kzg::params::ParamsKZG};
use midnight_zk_stdlib::{MidnightCircuit, Relation};
use midnight_zkir::{Instruction, IrType, IrValue, Operation, ZkirRelation};
use rand::Rng;
use rand_core::SeedableRng;
use serde_json::json;

use crate::{hex, Run, F};

/// Live-byte cap of the child (an allocation that would exceed it fails -> the child aborts).
const CHILD_CAP: usize = 1 << 30;
const CASE_TIMEOUT_S: u64 = 12;

// ---------------------------------------------------------------------------------------------
// canonical program description (the request line of the model)

fn name_hex(s: &str) -> String {
    if s.is_empty() {
        "-".into()
    } else {
        hex(s.as_bytes())
    }
}

/// What the REAL constant parser (`IrValue::try_from(&str)`) makes of a name: `-` (not a
/// constant), `b` Bool, `y<len>` Bytes, `n<hex>` Native, `u` BigUint, `p` JubjubPoint, `s` scalar.
fn const_class(name: &str) -> String {
    match mzkh::catch(|| IrValue::try_from(name)) {
        Err(_) => "PANIC".into(),
        Ok(Err(_)) => "-".into(),
        Ok(Ok(v)) => match v {
            IrValue::Bool(_) => "b".into(),
            IrValue::Bytes(b) => format!("y{}", b.len()),
            IrValue::Native(x) => format!("n{}", mzkh::fe_hex(&x)),
            IrValue::BigUint(_) => "u".into(),
            IrValue::JubjubPoint(_) => "p".into(),
            IrValue::JubjubScalar(_) => "s".into(),
        },
    }
}

/// `tag.tytag.typaram.num|in,in|out,out` per instruction, joined by `;` (`-` for no instruction).
pub fn program_spec(prog: &[Instruction]) -> String {
    if prog.is_empty() {
        return "-".into();
    }
    prog.iter()
        .map(|i| {
            let (tag, ty, num, _) = crate::sweeps2::op_parts(&i.operation);
            let (tt, tp) = ty.unwrap_or((9, 0));
            let ins: Vec<String> = i.inputs.iter().map(|n| format!("{}:{}", name_hex(n), const_class(n))).collect();
            let outs: Vec<String> = i.outputs.iter().map(|n| name_hex(n)).collect();
            format!("{tag}.{tt}.{tp}.{}|{}|{}", num.unwrap_or(0), ins.join(","), outs.join(","))
        })
        .collect::<Vec<_>>()
        .join(";")
}

fn err_class(msg: &str) -> &'static str {
    for (pat, cls) in [
        ("is not supported on", "unsupported"),
        ("not found", "notfound"),
        ("already exists", "dup"),
        ("was expected instead of", "type"),
        ("cannot be parsed as", "parse"),
        ("cannot convert", "convert"),
        ("expecting Bytes", "notbytes"),
        ("invalid length", "length"),
        ("assertion violated", "assert"),
        ("underflow", "underflow"),
        ("modulo zero", "modzero"),
    ] {
        if msg.contains(pat) {
            return cls;
        }
    }
    "other"
}

// ---------------------------------------------------------------------------------------------
// child

static CUR_CASE: AtomicUsize = AtomicUsize::new(usize::MAX);
static CASE_START: AtomicU64 = AtomicU64::new(0);

fn now_ms() -> u64 {
    use std::time::{SystemTime, UNIX_EPOCH};
    SystemTime::now().duration_since(UNIX_EPOCH).map(|d| d.as_millis() as u64).unwrap_or(0)
}

fn unhex(line: &str) -> Vec<u8> {
    if line == "-" {
        return vec![];
    }
    (0..line.len() / 2).map(|i| u8::from_str_radix(&line[2 * i..2 * i + 2], 16).unwrap()).collect()
}

/// A benign witness for every `Load` of the program (None if some loaded type is too large to
/// build a value for).
fn benign_witness(prog: &[Instruction]) -> Option<HashMap<&'static str, IrValue>> {
    use group::Group;
    let mut w: HashMap<&'static str, IrValue> = HashMap::new();
    for i in prog {
        if let Operation::Load(t) = i.operation {
            for o in &i.outputs {
                let v: IrValue = match t {
                    IrType::Bool => true.into(),
                    IrType::Bytes(n) => {
                        if n > 1 << 20 {
                            return None;
                        }
                        vec![0u8; n].into()
                    }
                    IrType::Native => F::from(7).into(),
                    IrType::BigUint(_) => num_bigint::BigUint::from(1u8).into(),
                    IrType::JubjubPoint => midnight_curves::JubjubSubgroup::generator().into(),
                    IrType::JubjubScalar => midnight_curves::Fr::from(5).into(),
                };
                let name: &'static str = Box::leak(o.clone().into_boxed_str());
                w.insert(name, v);
            }
        }
    }
    Some(w)
}

fn outcome<T, E: std::fmt::Debug>(r: Result<Result<T, E>, String>) -> String {
    match r {
        Err(p) => format!("PANIC[{}]", p.replace(['\n', '\t'], " ").chars().take(160).collect::<String>()),
        Ok(Ok(_)) => "ok".into(),
        Ok(Err(e)) => format!("err:{}", err_class(&format!("{e:?}"))),
    }
}

/// One case in the child: `(spec, compile answer, other consumers)`.
fn irc_one(kind: u8, bytes: &[u8], level: u8, srs: &std::cell::OnceCell<ParamsKZG<midnight_curves::Bls12>>) -> (String, String, String) {
    if kind == b'a' {
        let r = mzkh::catch(|| midnight_circuits::parsing::verif_hooks::verif_deserialize_automaton(bytes).map(|(_, rest)| rest));
        let a = match r {
            Err(p) => format!("PANIC[{}]", p.replace(['\n', '\t'], " ").chars().take(160).collect::<String>()),
            Ok(Ok(rest)) => format!("ok:rest={rest}"),
            Ok(Err(_)) => "err".to_string(),
        };
        return ("?".into(), if a.starts_with("PANIC") { "panic".into() } else { a.replace(':', " ") }, format!("automaton={a}"));
    }
    // decode through the real entry point
    let rel = match kind {
        b'j' => {
            let s: &'static str = Box::leak(String::from_utf8_lossy(bytes).into_owned().into_boxed_str());
            mzkh::catch(|| ZkirRelation::read(s)).map(|r| r.map_err(|e| format!("{e:?}")))
        }
        _ => mzkh::catch(|| ZkirRelation::read_relation(&mut &bytes[..])).map(|r| r.map_err(|e| e.to_string())),
    };
    let rel = match rel {
        Err(p) => return ("?".into(), "decode-panic".into(), p.replace(['\n', '\t'], " ")),
        Ok(Err(_)) => return ("?".into(), "decode-err".into(), String::new()),
        Ok(Ok(r)) => r,
    };
    let prog = rel.verif_instructions();
    let spec = program_spec(&prog);
    // (1) compilation with unknown witnesses
    let comp = mzkh::catch(|| {
        let circuit = MidnightCircuit::new(&rel, Value::unknown(), Value::unknown(), Some(8));
        dummy_synthesize_run(&circuit)
    });
    let comp_s = outcome(comp);
    let answer = if comp_s.starts_with("PANIC") { "panic".to_string() } else { comp_s.replace(':', " ") };
    let mut extra = vec![format!("compile={comp_s}")];
    // (2) public_inputs with a benign witness (off-circuit interpreter, then the dummy pass)
    if let Some(w) = benign_witness(&prog) {
        let w2 = w.clone();
        extra.push(format!("off={}", outcome(mzkh::catch(|| rel.verif_eval_offcircuit(w2)))));
        if level >= 1 {
            extra.push(format!("pi={}", outcome(mzkh::catch(|| rel.public_inputs(w)))));
        }
    }
    // (3) consumers that have no error value: they must succeed on a program that compiles
    if comp_s == "ok" && level >= 1 {
        let r = mzkh::catch(|| MidnightCircuit::from_relation(&rel).min_k());
        extra.push(format!("mink={}", match &r { Ok(k) => format!("ok:{k}"), Err(p) => format!("PANIC[{}]", p.chars().take(120).collect::<String>()) }));
        let r = mzkh::catch(|| midnight_zk_stdlib::cost_model(&rel).k);
        extra.push(format!("cost={}", match &r { Ok(_) => "ok".to_string(), Err(p) => format!("PANIC[{}]", p.chars().take(120).collect::<String>()) }));
        if level >= 2 {
            if let Ok(k) = mzkh::catch(|| MidnightCircuit::from_relation(&rel).min_k()) {
                let srs = srs.get_or_init(|| ParamsKZG::<midnight_curves::Bls12>::unsafe_setup(11, rand_chacha::ChaCha8Rng::seed_from_u64(0x16C)));
                if k <= 11 {
                    let r = mzkh::catch(|| {
                        let mut srs = srs.clone();
                        srs.downsize(k);
                        let vk = midnight_zk_stdlib::setup_vk(&srs, &rel);
                        let mut b = vec![];
                        vk.write(&mut b, midnight_proofs::utils::SerdeFormat::RawBytes).map(|_| b.len())
                    });
                    extra.push(format!("keygen={}", outcome(r)));
                }
            }
        }
    }
    (spec, answer, extra.join(" ").replace('\t', " "))
}

/// `h-c16 --irc-child <file> <start>`; file lines: `<b|j><0|1 keygen> <hex>`.
pub fn irc_child(file: &str, start: usize) {
    use std::io::Write;
    mzkh::quiet_panics();
    crate::alloc::set_cap(CHILD_CAP);
    std::thread::spawn(|| loop {
        std::thread::sleep(std::time::Duration::from_millis(200));
        let idx = CUR_CASE.load(Relaxed);
        let st = CASE_START.load(Relaxed);
        if idx != usize::MAX && st != 0 && now_ms().saturating_sub(st) > CASE_TIMEOUT_S * 1000 {
            // no allocation-heavy formatting here: the main thread may hold most of the memory
            let _ = writeln!(std::io::stdout(), "{idx}\t0\t?\ttimeout\t");
            let _ = std::io::stdout().flush();
            std::process::exit(3);
        }
    });
    let text = std::fs::read_to_string(file).expect("case file");
    let srs = std::cell::OnceCell::new();
    let out = std::io::stdout();
    for (idx, line) in text.lines().enumerate().skip(start) {
        let (head, hx) = line.split_once(' ').expect("case line");
        let kind = head.as_bytes()[0];
        let keygen = head.as_bytes()[1] - b'0';
        let bytes = unhex(hx);
        CASE_START.store(now_ms(), Relaxed);
        CUR_CASE.store(idx, Relaxed);
        let ((spec, ans, extra), peak) = crate::alloc::measure(|| irc_one(kind, &bytes, keygen, &srs));
        CUR_CASE.store(usize::MAX, Relaxed);
        if std::env::var("H_C16_TIMING").is_ok() {
            eprintln!("TIMING\t{}\t{}\t{}", now_ms().saturating_sub(CASE_START.load(Relaxed)), spec, extra);
        }
        let mut o = out.lock();
        writeln!(o, "{idx}\t{peak}\t{spec}\t{ans}\t{extra}").unwrap();
        o.flush().unwrap();
    }
}

// ---------------------------------------------------------------------------------------------
// parent: generation

pub struct Case {
    /// stable label of the generator class (part of the oracle key; never contains a seed-dependent value)
    pub kind: String,
    pub json: bool,
    /// bytes of an automaton serialization (decoded with the real `Automaton::deserialize`)
    pub auto: bool,
    pub keygen: u8,
    pub bytes: Vec<u8>,
}

fn ins(op: Operation, i: &[&str], o: &[&str]) -> Instruction {
    Instruction { operation: op, inputs: i.iter().map(|s| s.to_string()).collect(), outputs: o.iter().map(|s| s.to_string()).collect() }
}

/// Encode with the crate's own writer (None if `from_instructions` rejects the arity).
fn encode(prog: &[Instruction]) -> Option<Vec<u8>> {
    let rel = ZkirRelation::from_instructions(prog).ok()?;
    let mut b = vec![];
    rel.write_relation(&mut b).ok()?;
    Some(b)
}

fn to_json(prog: &[Instruction]) -> Vec<u8> {
    serde_json::to_string(&json!({ "instructions": prog })).unwrap().into_bytes()
}

/// Operand sources: `(label, type, constant literal)`.
fn operand_types() -> Vec<(&'static str, IrType, String)> {
    vec![
        ("bool", IrType::Bool, "1".into()),
        ("bytes4", IrType::Bytes(4), "0x01020304".into()),
        ("bytes32", IrType::Bytes(32), format!("01{}", "00".repeat(31))),
        ("bytes0", IrType::Bytes(0), "".into()),
        ("native", IrType::Native, "Native:0x07".into()),
        ("big16", IrType::BigUint(16), "BigUint:ff".into()),
        ("point", IrType::JubjubPoint, "Jubjub:GENERATOR".into()),
        ("scalar", IrType::JubjubScalar, "JubjubScalar:05".into()),
    ]
}

/// Preamble + operand name for operand `(ty, lit)` named `var`, loaded (unknown) or constant (known).
fn source(t: &(&'static str, IrType, String), known: bool, var: &str, pre: &mut Vec<Instruction>) -> String {
    if known {
        t.2.clone()
    } else {
        pre.push(ins(Operation::Load(t.1), &[], &[var]));
        var.to_string()
    }
}

const N_IMM: [u64; 22] = [
    0, 1, 2, 31, 32, 33, 34, 48, 64, 255, 256, 65535, 65536, 1 << 31, (1 << 32) - 1, 1 << 32, (1 << 32) + 1, (1 << 32) + 32,
    (1 << 32) + 33, 1 << 63, u64::MAX - 1, u64::MAX,
];

pub fn generate(run: &mut Run) -> Vec<Case> {
    use Operation::*;
    // the search tier (failing-input search after a break) uses the quick sizes: it must finish in minutes
    let quick = !run.ctx.thorough();
    let mut rng = run.ctx.rng("irc");
    let mut cases: Vec<Case> = vec![];
    // level: 0 = decode + compile + off-circuit; 1 = + public_inputs, min_k, cost model; 2 = + key generation
    let mut push = |kind: String, prog: &[Instruction], also_json: bool, level: u8| {
        if let Some(b) = encode(prog) {
            cases.push(Case { kind: kind.clone(), json: false, auto: false, keygen: level, bytes: b });
        }
        if also_json {
            cases.push(Case { kind: format!("{kind}:json"), json: true, auto: false, keygen: level.min(1), bytes: to_json(prog) });
        }
    };
    let lvl = |full: bool| if full { 2u8 } else if quick { 0 } else { 1 };
    let tys = operand_types();
    let kn = |k: bool| if k { "const" } else { "load" };

    // (a1) every unary operation x every operand type x {loaded, constant}
    let unary: Vec<(&str, Operation, usize)> = vec![
        ("neg", Neg, 1),
        ("affine", AffineCoordinates, 2),
        ("sha256", Sha256, 1),
        ("sha512", Sha512, 1),
        ("into_bytes32", IntoBytes(32), 1),
        ("into_bytes4", IntoBytes(4), 1),
        ("from_bytes.native", FromBytes(IrType::Native), 1),
        ("from_bytes.big32", FromBytes(IrType::BigUint(32)), 1),
        ("from_bytes.big256", FromBytes(IrType::BigUint(256)), 1),
        ("from_bytes.point", FromBytes(IrType::JubjubPoint), 1),
        ("from_bytes.scalar", FromBytes(IrType::JubjubScalar), 1),
        ("from_bytes.bool", FromBytes(IrType::Bool), 1),
        ("from_bytes.bytes4", FromBytes(IrType::Bytes(4)), 1),
        ("poseidon1", Poseidon, 1),
        ("publish", Publish, 0),
    ];
    for (on, op, nout) in &unary {
        for t in &tys {
            for known in [false, true] {
                let mut p = vec![];
                let x = source(t, known, "x", &mut p);
                let outs: Vec<&str> = ["r", "r2"][..*nout].to_vec();
                p.push(ins(*op, &[&x], &outs));
                if *nout > 0 {
                    p.push(ins(Publish, &outs, &[]));
                }
                let kg = !known && matches!(*on, "neg" | "into_bytes32" | "publish") && t.0 != "bytes32";
                if quick && on.starts_with("sha") && (known || t.0 == "bytes32") {
                    continue;
                }
                push(format!("op:{on}:{}:{}", t.0, kn(known)), &p, false, lvl(kg));
            }
        }
    }
    // (a2) every binary operation x type pairs x knownness
    let binary: Vec<(&str, Operation, usize)> = vec![
        ("assert_eq", AssertEqual, 0),
        ("assert_ne", AssertNotEqual, 0),
        ("is_equal", IsEqual, 1),
        ("add", Add, 1),
        ("sub", Sub, 1),
        ("mul", Mul, 1),
        ("mod_exp3", ModExp(3), 1),
        ("inner_product", InnerProduct, 1),
        ("poseidon2", Poseidon, 1),
    ];
    let mut pairs: Vec<(usize, usize)> = (0..tys.len()).map(|i| (i, i)).collect();
    pairs.extend([(4, 5), (5, 4), (7, 6), (6, 7), (0, 4), (1, 2), (2, 1), (4, 1), (5, 6), (3, 1)]);
    for (on, op, nout) in &binary {
        for (a, b) in &pairs {
            for (ka, kb) in [(false, false), (false, true), (true, false), (true, true)] {
                if quick && a != b && ka != kb {
                    continue;
                }
                let mut p = vec![];
                let x = source(&tys[*a], ka, "x", &mut p);
                // constants differ so that the second operand of assert_ne is not the first
                let y = if kb && a == b && tys[*b].0 == "native" { "Native:0x08".to_string() } else { source(&tys[*b], kb, "y", &mut p) };
                let outs: Vec<&str> = ["r"][..*nout].to_vec();
                p.push(ins(*op, &[&x, &y], &outs));
                if *nout > 0 {
                    p.push(ins(Publish, &outs, &[]));
                }
                push(format!("op2:{on}:{}x{}:{}{}", tys[*a].0, tys[*b].0, kn(ka), kn(kb)), &p, false, lvl(false));
            }
        }
    }
    // (a3) immediate parameters at and beyond each documented limit
    let big256 = ("big256", IrType::BigUint(256), format!("BigUint:{}", "ff".repeat(32)));
    let big1k = ("big1024", IrType::BigUint(1024), format!("BigUint:{}", "ab".repeat(128)));
    let native_wide = ("native-wide", IrType::Native, format!("Native:0x{}", "11".repeat(31)));
    let mut ib_ops: Vec<(&'static str, IrType, String)> = vec![tys[4].clone(), native_wide, tys[5].clone(), big256, big1k, tys[6].clone()];
    ib_ops.extend([tys[0].clone(), tys[1].clone(), tys[7].clone()]);
    for (ti, t) in ib_ops.iter().enumerate() {
        for known in [false, true] {
            for n in N_IMM {
                if (n as usize as u64) != n {
                    continue;
                }
                // sizes beyond 2^31: the native operands (guard arithmetic) and one BigUint / point
                if quick && n >= 1 << 31 && !(ti <= 2 || (ti == 5 && !known)) {
                    continue;
                }
                if quick && ti >= 6 && ![0, 4, 32, 33].contains(&n) {
                    continue;
                }
                let mut p = vec![];
                let x = source(t, known, "x", &mut p);
                p.push(ins(IntoBytes(n as usize), &[&x], &["r"]));
                push(format!("imm:into_bytes:{}:{}", t.0, kn(known)), &p, n == 33 || n == 32, if n <= 64 { 1 } else { 0 });
            }
        }
    }
    let lens: [usize; 9] = [0, 1, 4, 31, 32, 33, 64, 65, 128];
    let bits: [u32; 16] = [0, 1, 7, 8, 9, 31, 32, 33, 255, 256, 257, 511, 512, 65536, u32::MAX - 1, u32::MAX];
    for len in lens {
        for known in [false, true] {
            // (the 32-byte constant is the encoding of the identity: a valid point)
            let t = ("bytes", IrType::Bytes(len), if len == 32 { format!("01{}", "00".repeat(31)) } else { "5a".repeat(len) });
            let mut targets: Vec<IrType> = bits.iter().map(|b| IrType::BigUint(*b)).collect();
            targets.extend([IrType::Native, IrType::JubjubPoint, IrType::JubjubScalar, IrType::Bool, IrType::Bytes(len), IrType::Bytes(usize::MAX)]);
            for tt in targets {
                let mut p = vec![];
                let x = source(&t, known, "x", &mut p);
                p.push(ins(FromBytes(tt), &[&x], &["r"]));
                p.push(ins(Publish, &["r"], &[]));
                push(format!("imm:from_bytes:{}", kn(known)), &p, false, lvl(false));
            }
        }
    }
    for e in [0u64, 1, 2, 3, 31, 32, 33, 64, 255, 65536, 65537, (1 << 32) - 1, 1 << 32, 1 << 63, u64::MAX] {
        for (ka, kb) in [(false, false), (true, false), (false, true), (true, true)] {
            let mut p = vec![];
            let x = source(&tys[5], ka, "x", &mut p);
            let m = source(&tys[5], kb, "m", &mut p);
            p.push(ins(ModExp(e), &[&x, &m], &["r"]));
            p.push(ins(Publish, &["r"], &[]));
            push(format!("imm:mod_exp:{}{}", kn(ka), kn(kb)), &p, e == 3, if e == 3 { 1 } else { 0 });
        }
    }
    // Load(Bytes(n)) / Load(BigUint(b)): 1..3 outputs; sizes a program may legitimately ask for
    let load_bytes: Vec<usize> = if quick { vec![0, 1, 31, 32, 33, 64, 255, 1024] } else { vec![0, 1, 31, 32, 33, 64, 255, 1024, 65536] };
    for n in load_bytes {
        for outs in [vec!["a"], vec!["a", "b", "c"]] {
            let p = vec![ins(Load(IrType::Bytes(n)), &[], &outs), ins(Publish, &[outs[0]], &[])];
            push("imm:load_bytes".into(), &p, false, 1);
        }
    }
    for b in [0u32, 1, 2, 31, 32, 33, 64, 255, 256, 1024, 4096] {
        let p = vec![ins(Load(IrType::BigUint(b)), &[], &["a", "b"]), ins(Mul, &["a", "b"], &["c"]), ins(IntoBytes(8), &["c"], &["d"]), ins(Publish, &["d", "a"], &[])];
        push("imm:load_big".into(), &p, false, lvl(b == 64));
    }
    // sizes no circuit can hold: an error value (or a bounded failure), never memory ~ the field
    for n in [1usize << 31, (1 << 32) - 1, 1 << 32, 1 << 40, 1 << 63, usize::MAX] {
        push("huge:load_bytes".into(), &[ins(Load(IrType::Bytes(n)), &[], &["a"])], false, 0);
    }
    for b in [1u32 << 24, 1 << 31, u32::MAX] {
        if quick && b == 1 << 24 {
            continue; // runs into the per-case timeout: thorough tier only
        }
        push("huge:load_big".into(), &[ins(Load(IrType::BigUint(b)), &[], &["a"])], false, 0);
    }
    // SHA on the block boundaries, Poseidon / InnerProduct arities
    for n in [0usize, 1, 55, 56, 64, 111, 112, 128] {
        if quick && ![0, 55, 56, 112].contains(&n) {
            continue;
        }
        let p = vec![ins(Load(IrType::Bytes(n)), &[], &["m"]), ins(Sha256, &["m"], &["d"]), ins(Sha512, &["m"], &["e"]), ins(IsEqual, &["d", "e"], &["t"]), ins(Publish, &["d", "e"], &[])];
        push("imm:sha-len".into(), &p, false, lvl(false));
    }
    for n in 1..=5usize {
        let names: Vec<String> = (0..2 * n).map(|i| format!("v{i}")).collect();
        let refs: Vec<&str> = names.iter().map(|s| s.as_str()).collect();
        let p = vec![ins(Load(IrType::Native), &[], &refs), ins(Poseidon, &refs[..n], &["h"]), ins(InnerProduct, &refs, &["ip"]), ins(Publish, &["h", "ip"], &[])];
        push("imm:variadic".into(), &p, false, lvl(n == 2));
        let mut q = vec![ins(Load(IrType::JubjubScalar), &[], &refs[..n]), ins(Load(IrType::JubjubPoint), &[], &refs[n..])];
        q.push(ins(InnerProduct, &refs, &["ip"]));
        q.push(ins(Publish, &["ip"], &[]));
        push("imm:variadic-msm".into(), &q, false, lvl(false));
        // mixed halves
        let mut q = vec![ins(Load(IrType::Native), &[], &refs[..n]), ins(Load(IrType::JubjubPoint), &[], &refs[n..])];
        q.push(ins(InnerProduct, &refs, &["ip"]));
        push("imm:variadic-mixed".into(), &q, false, 0);
    }
    // (a4) names: duplicates, unknown names, a variable shadowing a constant, odd names
    let name_progs: Vec<Vec<Instruction>> = vec![
        vec![ins(Load(IrType::Native), &[], &["x", "x"])],
        vec![ins(Load(IrType::Native), &[], &["x"]), ins(Load(IrType::Bool), &[], &["x"])],
        vec![ins(Load(IrType::Native), &[], &["x"]), ins(Add, &["x", "nope"], &["y"])],
        vec![ins(Load(IrType::Native), &[], &["1"]), ins(Neg, &["1"], &["y"])],
        vec![ins(Load(IrType::Native), &[], &["Native:0x07"]), ins(IntoBytes(1), &["Native:0x07"], &["y"])],
        vec![ins(Load(IrType::Native), &[], &[""]), ins(Neg, &[""], &["y"])],
        vec![ins(Load(IrType::Native), &[], &["x"]), ins(Neg, &["x"], &["x"])],
        vec![ins(Publish, &["Native:"], &[])],
        vec![ins(Publish, &["Native:-0x01"], &[])],
        vec![ins(Publish, &[&format!("Native:0x{}", "ff".repeat(32))], &[])],
        vec![ins(Publish, &[&format!("Native:0x{}", "ff".repeat(33))], &[])],
        vec![ins(Publish, &["BigUint:"], &[])],
        vec![ins(Publish, &["BigUint:0"], &[])],
        vec![ins(Publish, &["BigUint:0x"], &[])],
        vec![ins(Publish, &["Jubjub:IDENTITY"], &[])],
        vec![ins(Publish, &[&format!("Jubjub:{}", "00".repeat(32))], &[])],
        vec![ins(Publish, &["Jubjub:00"], &[])],
        vec![ins(Publish, &[&format!("JubjubScalar:{}", "ff".repeat(32))], &[])],
        vec![ins(Publish, &["a:b:c"], &[])],
        vec![ins(Publish, &["0x0"], &[])],
        vec![ins(Publish, &["é"], &[])],
        vec![ins(Publish, &["2"], &[])],
        vec![ins(IntoBytes(0), &["BigUint:0"], &["z"]), ins(FromBytes(IrType::BigUint(8)), &["z"], &["w"])],
        vec![ins(IntoBytes(1), &["Native:0x0100"], &["z"])],
        vec![ins(IntoBytes(2), &["Native:0x0100"], &["z"]), ins(Publish, &["z"], &[])],
        vec![ins(IntoBytes(31), &["Native:-0x01"], &["z"])],
        vec![ins(Add, &["Native:0xff", "Native:0x01"], &["s"]), ins(IntoBytes(1), &["s"], &["z"])],
        vec![ins(Sub, &["Native:0x00", "Native:0x01"], &["s"]), ins(IntoBytes(31), &["s"], &["z"])],
        vec![ins(Mul, &["Native:0x10", "Native:0x10"], &["s"]), ins(Neg, &["s"], &["t"]), ins(Neg, &["t"], &["u"]), ins(IntoBytes(1), &["u"], &["z"])],
        vec![ins(Sub, &["BigUint:01", "BigUint:02"], &["s"])],
        vec![ins(ModExp(3), &["BigUint:05", "BigUint:00"], &["s"])],
    ];
    for p in &name_progs {
        push("names".into(), p, true, 1);
    }

    // (b) single-byte substitutions of immediates in honest bincode programs. The offset of an
    // immediate is DERIVED from the writer: the same program encoded with the immediate changed
    // differs in exactly the bytes of that immediate.
    let honest: Vec<(&str, Vec<Instruction>, Vec<(usize, Operation)>)> = vec![
        ("into_bytes.native", vec![ins(Load(IrType::Native), &[], &["x"]), ins(IntoBytes(32), &["x"], &["b"]), ins(Publish, &["b"], &[])], vec![(1, IntoBytes(31))]),
        ("into_bytes.big", vec![ins(Load(IrType::BigUint(64)), &[], &["x"]), ins(IntoBytes(8), &["x"], &["b"]), ins(Publish, &["b"], &[])], vec![(1, IntoBytes(9)), (0, Load(IrType::BigUint(65)))]),
        ("into_bytes.point", vec![ins(Load(IrType::JubjubPoint), &[], &["x"]), ins(IntoBytes(32), &["x"], &["b"]), ins(Publish, &["b"], &[])], vec![(1, IntoBytes(31))]),
        ("from_bytes.big", vec![ins(Load(IrType::Bytes(4)), &[], &["x"]), ins(FromBytes(IrType::BigUint(32)), &["x"], &["b"]), ins(Publish, &["b"], &[])], vec![(1, FromBytes(IrType::BigUint(33))), (0, Load(IrType::Bytes(5)))]),
        ("from_bytes.point", vec![ins(Load(IrType::Bytes(32)), &[], &["x"]), ins(FromBytes(IrType::JubjubPoint), &["x"], &["b"]), ins(Publish, &["b"], &[])], vec![(0, Load(IrType::Bytes(31)))]),
        ("mod_exp", vec![ins(Load(IrType::BigUint(8)), &[], &["x", "m"]), ins(ModExp(5), &["x", "m"], &["b"]), ins(Publish, &["b"], &[])], vec![(1, ModExp(6)), (0, Load(IrType::BigUint(9)))]),
        ("bytes-eq", vec![ins(Load(IrType::Bytes(32)), &[], &["x"]), ins(IntoBytes(32), &["Native:0x07"], &["e"]), ins(AssertEqual, &["x", "e"], &[])], vec![(0, Load(IrType::Bytes(31))), (1, IntoBytes(31))]),
    ];
    for (name, prog, imms) in &honest {
        let base = encode(prog).expect("honest program");
        cases.push(Case { kind: format!("mut:{name}:honest"), json: false, auto: false, keygen: 2, bytes: base.clone() });
        for (idx, alt) in imms {
            let mut q = prog.clone();
            q[*idx].operation = *alt;
            let other = encode(&q).expect("variant");
            assert_eq!(base.len(), other.len());
            let offs: Vec<usize> = (0..base.len()).filter(|i| base[*i] != other[*i]).collect();
            assert_eq!(offs.len(), 1, "an immediate below 251 is one byte");
            let at = offs[0];
            for v in 0..=255u8 {
                let dense = !quick || v <= 34 || v >= 249 || [48, 63, 64, 65, 127, 128, 200].contains(&v) || rng.gen_range(0..16) == 0;
                if dense {
                    let mut m = base.clone();
                    m[at] = v;
                    cases.push(Case { kind: format!("mut:{name}:imm{idx}"), json: false, auto: false, keygen: if v == 33 || v == 32 { 1 } else { 0 }, bytes: m });
                }
            }
            // the immediate widened to a u16 / u32 / u64 marker with boundary payloads
            for (marker, width) in [(251u8, 2usize), (252, 4), (253, 8)] {
                for payload in [0u64, 32, 33, 251, 65535, 1 << 31, u32::MAX as u64, 1 << 32, (1 << 32) + 1, 1 << 63, u64::MAX] {
                    if width < 8 && payload >> (8 * width) != 0 {
                        continue;
                    }
                    if quick && payload >= 1 << 31 && !(name.starts_with("into_bytes") && *idx == 1) && payload != u64::MAX {
                        continue;
                    }
                    // a 2^16-bit modular exponentiation is a legitimate (huge) circuit: not a decoding issue
                    if matches!(alt, Load(IrType::BigUint(_))) && (4096..1 << 31).contains(&payload) {
                        continue;
                    }
                    let mut m = base[..at].to_vec();
                    m.push(marker);
                    m.extend_from_slice(&payload.to_le_bytes()[..width]);
                    m.extend_from_slice(&base[at + 1..]);
                    cases.push(Case { kind: format!("mut:{name}:imm{idx}-wide"), json: false, auto: false, keygen: 0, bytes: m });
                }
            }
        }
    }
    // JSON: the immediate of honest JSON programs replaced textually
    for n in ["0", "1", "32", "33", "64", "255", "65536", "4294967295", "4294967296", "4294967297", "9223372036854775808", "18446744073709551615", "18446744073709551616", "-1", "1.5", "1e3"] {
        for (op, inp, load) in [("into_bytes", "x", "\"Native\""), ("into_bytes", "x", "{\"BigUint\":64}"), ("into_bytes", "x", "\"JubjubPoint\""), ("mod_exp", "x\",\"x", "{\"BigUint\":8}")] {
            let s = format!(
                "{{\"instructions\":[{{\"op\":{{\"load\":{load}}},\"outputs\":[\"x\"]}},{{\"op\":{{\"{op}\":{n}}},\"inputs\":[\"{inp}\"],\"outputs\":[\"b\"]}}]}}"
            );
            cases.push(Case { kind: format!("json-imm:{op}"), json: true, auto: false, keygen: 0, bytes: s.into_bytes() });
        }
        for t in ["Bytes", "BigUint"] {
            let s = format!("{{\"instructions\":[{{\"op\":{{\"load\":{{\"Bytes\":4}}}},\"outputs\":[\"x\"]}},{{\"op\":{{\"from_bytes\":{{\"{t}\":{n}}}}},\"inputs\":[\"x\"],\"outputs\":[\"b\"]}}]}}");
            cases.push(Case { kind: "json-imm:from_bytes".into(), json: true, auto: false, keygen: 0, bytes: s.into_bytes() });
        }
    }
    // Automaton serialization (circuits/src/parsing/serialization.rs): `usize` = 8 little-endian
    // bytes; fields in the order of `impl_serialize_for_struct!(Automaton { nb_states, initial_state,
    // final_states, transitions })`; a `Vec`/set/map = length then elements. The two length fields
    // sit at offset 16 and 24 + 8 * |final_states|; additionally EVERY offset of the first 48 bytes
    // is overwritten (nothing is guessed).
    let lib = midnight_circuits::parsing::verif_hooks::verif_spec_library_data();
    if let Some((_, _, honest)) = lib.iter().min_by_key(|(_, _, b)| b.len()) {
        let h = honest.to_vec();
        cases.push(Case { kind: "auto:honest".into(), json: false, auto: true, keygen: 0, bytes: h.clone() });
        let nfinal = u64::from_le_bytes(h[16..24].try_into().unwrap()) as usize;
        let mut offs: Vec<usize> = vec![16, 24 + 8 * nfinal];
        offs.extend((0..48).filter(|o| !quick || o % 8 == 0));
        for at in offs {
            for v in [1u64 << 31, (1 << 32) - 1, 1 << 40, 1 << 63, u64::MAX] {
                if at + 8 <= h.len() {
                    let mut m = h.clone();
                    m[at..at + 8].copy_from_slice(&v.to_le_bytes());
                    cases.push(Case { kind: "auto:length-field".into(), json: false, auto: true, keygen: 0, bytes: m });
                }
            }
        }
        for t in [0usize, 7, 8, 16, 23, 24, 25, h.len() - 1] {
            cases.push(Case { kind: "auto:truncate".into(), json: false, auto: true, keygen: 0, bytes: h[..t.min(h.len())].to_vec() });
        }
    }
    cases
}

// ---------------------------------------------------------------------------------------------
// parent: execution

/// Decode in the parent (both decoders are total on the pinned tree: swept by `run_ir`).
fn decode(c: &Case) -> Option<Vec<Instruction>> {
    let r = if c.json {
        let s: &'static str = Box::leak(String::from_utf8_lossy(&c.bytes).into_owned().into_boxed_str());
        mzkh::catch(|| ZkirRelation::read(s).ok())
    } else {
        mzkh::catch(|| ZkirRelation::read_relation(&mut &c.bytes[..]).ok())
    };
    r.ok().flatten().map(|rel| rel.verif_instructions())
}

/// Stable identity of the failure class of a program: which size parameter is beyond what any
/// circuit can hold. `small` = every parameter is small: a failure there is never a size issue.
fn family(prog: &[Instruction]) -> &'static str {
    let mut fam = "small";
    for i in prog {
        match i.operation {
            Operation::IntoBytes(n) if n as u64 >= 1 << 32 => return "into_bytes:n>=2^32",
            Operation::IntoBytes(n) if n as u64 >= 1 << 24 => fam = "into_bytes:n>=2^24",
            Operation::Load(IrType::Bytes(n)) if n as u64 >= 1 << 24 => fam = "load_bytes:n>=2^24",
            Operation::Load(IrType::BigUint(b)) if b >= 1 << 12 => fam = "load_big:b>=2^12",
            _ => {}
        }
    }
    fam
}

pub fn run_compile(run: &mut Run) {
    let cases = generate(run);
    let file = run.ctx.out_dir.join("irc_cases.txt");
    std::fs::write(
        &file,
        cases.iter().map(|c| format!("{}{} {}", if c.auto { 'a' } else if c.json { 'j' } else { 'b' }, c.keygen, hex(&c.bytes))).collect::<Vec<_>>().join("\n") + "\n",
    )
    .unwrap();
    let exe = std::env::current_exe().expect("current_exe");
    let mut answers: Vec<Option<(usize, String, String, String)>> = vec![None; cases.len()];
    let mut start = 0;
    let mut restarts = 0u64;
    while start < cases.len() {
        let out = std::process::Command::new(&exe).arg("--irc-child").arg(&file).arg(start.to_string()).output().expect("spawn child");
        let mut last = None;
        for l in String::from_utf8_lossy(&out.stdout).lines() {
            let f: Vec<&str> = l.splitn(5, '\t').collect();
            if f.len() == 5 {
                if let (Ok(i), Ok(p)) = (f[0].parse::<usize>(), f[1].parse::<usize>()) {
                    if i < answers.len() {
                        answers[i] = Some((p, f[2].to_string(), f[3].to_string(), f[4].to_string()));
                        last = Some(i);
                    }
                }
            }
        }
        let timed_out = last.map(|i| answers[i].as_ref().map(|a| a.2 == "timeout").unwrap_or(false)).unwrap_or(false);
        let next = if timed_out { last.unwrap() } else { last.map(|i| i + 1).unwrap_or(start) };
        if next >= cases.len() && out.status.success() {
            break;
        }
        if !timed_out && next < cases.len() {
            let stderr = String::from_utf8_lossy(&out.stderr);
            let msg: String = stderr.lines().find(|l| l.contains("memory allocation") || l.contains("panicked") || l.contains("overflow")).or(stderr.lines().next()).unwrap_or("").chars().take(160).collect();
            answers[next] = Some((0, "?".into(), "abort".into(), msg));
        }
        start = next + 1;
        restarts += 1;
        if restarts > 400 {
            break;
        }
    }
    run.ctx.count_n("irc-child-restarts", restarts);
    if std::env::var("H_C16_TIMING").is_err() {
        let _ = std::fs::remove_file(&file);
    }
    let mut log = String::new();
    // one oracle failure per stable key (the first input that hits it is the replay); the
    // evidence counts the others
    let mut reported: std::collections::HashSet<String> = std::collections::HashSet::new();
    for (c, a) in cases.iter().zip(answers) {
        let (peak, spec, ans, extra) = a.unwrap_or((0, "?".into(), "abort".into(), "(no answer)".into()));
        if ans == "abort" || ans == "timeout" || ans == "decode-panic" || extra.contains("PANIC[") {
            log.push_str(&format!("{}\t{}\t{}\t{}\t{}\n", c.kind, if c.json { String::from_utf8_lossy(&c.bytes).into_owned() } else { hex(&c.bytes) }, spec, ans, extra));
        }
        let what = if c.auto { "automaton-deserialize" } else if c.json { "zkir-read+compile" } else { "zkir-read_relation+compile" };
        run.ctx.count(&format!("guarded:{what}"));
        let e = run.peaks.entry(if c.auto { "automaton-deserialize" } else { "zkir-compile" }.to_string()).or_insert((0, 0));
        if peak > e.0 {
            *e = (peak, c.bytes.len());
        }
        let decoded = if c.auto { None } else { decode(c) };
        let kclass = if c.auto { "automaton-length-field" } else { decoded.as_ref().map(|p| family(p)).unwrap_or("undecodable") };
        let spec = if spec == "?" { decoded.as_ref().map(|p| program_spec(p)).unwrap_or(spec) } else { spec };
        let replay = if c.auto { json!({"automaton_bytes_hex": hex(&c.bytes[..c.bytes.len().min(256)]), "len": c.bytes.len(), "kind": c.kind}) } else if c.json { json!({"json": String::from_utf8_lossy(&c.bytes), "kind": c.kind}) } else { json!({"bincode_hex": hex(&c.bytes), "kind": c.kind, "program": spec}) };
        let mut fail = |run: &mut Run, outcome: &str, what_s: String| {
            let key = if c.auto { format!("automaton-deserialize:length-field:{outcome}") } else { format!("zkir-compile:{kclass}:{outcome}") };
            run.ctx.count(&format!("oracle-hit:{key}"));
            if !reported.insert(key.clone()) {
                return;
            }
            let mut d = replay.clone();
            d["outcome"] = json!(outcome);
            d["consumers"] = json!(extra);
            run.ctx.oracle_fail(&key, &what_s, d);
        };
        match ans.as_str() {
            "abort" => fail(run, "abort", format!("a ZKIR program of {} bytes aborted the process while being decoded/compiled ({extra}): memory proportional to a length field of the program", c.bytes.len())),
            "timeout" => fail(run, "timeout", format!("a ZKIR program of {} bytes did not finish compiling within {CASE_TIMEOUT_S} s", c.bytes.len())),
            "decode-panic" => fail(run, "decode-panic", format!("decoding a ZKIR program panicked: {extra}")),
            _ => {}
        }
        // every consumer: a value, never a panic
        for part in extra.split(' ') {
            if let Some((consumer, res)) = part.split_once('=') {
                run.ctx.count(&format!("irc:{consumer}:{}", res.split(['[', ':']).next().unwrap_or("?")));
            }
        }
        if let Some(pos) = extra.find("PANIC[") {
            let consumer = extra[..pos].rsplit(' ').next().unwrap_or("?").trim_end_matches('=').to_string();
            let msg: String = extra[pos..].chars().take(200).collect();
            // `capacity overflow` = an allocation sized by a field of the input (same class as an abort)
            let outcome = if msg.starts_with("PANIC[capacity overflow") { "capacity-overflow".to_string() } else { format!("{consumer}-panic") };
            fail(run, &outcome, format!("ZKIR consumer `{consumer}` panicked on a program decoded from untrusted bytes: {msg}"));
        }
        // memory: linear in the input (automaton) / what a circuit of the requested size needs (programs)
        if (c.auto && peak > crate::alloc::ALLOC_C * c.bytes.len() + (1 << 20)) || peak > (2usize << 30) {
            fail(run, "alloc", format!("compiling a ZKIR program of {} bytes allocated {peak} bytes at its peak", c.bytes.len()));
        }
        let _ = &log;
        if ans == "panic" {
            // the oracle failure above is the report; the model has no line to predict
            run.ctx.count("irc-nospec:panic");
        } else if spec != "?" && ans != "abort" && ans != "timeout" {
            run.case(&format!("irc:{}", c.kind.split(':').take(2).collect::<Vec<_>>().join(":")), ans != "decode-err", &format!("irc {spec}"), &ans);
        } else {
            run.ctx.count(&format!("irc-nospec:{ans}"));
        }
    }
    std::fs::write(run.ctx.out_dir.join("irc_failures.txt"), log).unwrap();
}
